//! Correspondence harness: executes the real entry points of /repo's `staking` and
//! `treasury` crates in-process behind a JSON line protocol (one request per line on
//! stdin, one reply per line on stdout).  See /verif/DESIGN.md §3.1.
//!
//! Every entry-point call runs under `catch_unwind`; a failing or panicking call leaves
//! the storage exactly as it was before the call (CosmWasm discards a failed call's
//! writes).  Transaction-level atomicity (sub-message/reply failures) is driven by the
//! orchestrator through `snap` / `rollback` / `commit`.

use cosmwasm_std::testing::{MockApi, MockQuerier};
use cosmwasm_std::{
    from_json, Addr, Api, Binary, BlockInfo, CanonicalAddr, Coin, ContractInfo, Env, MessageInfo,
    Order, OwnedDeps, Record, RecoverPubkeyError, Reply, Response, StdError, StdResult, Storage,
    SubMsgResponse, SubMsgResult, Timestamp, TransactionInfo, Uint128, VerificationError,
};
use serde_json::{json, Value};
use std::cell::RefCell;
use std::collections::BTreeMap;
use std::io::{BufRead, Write};
use std::marker::PhantomData;
use std::panic::{catch_unwind, AssertUnwindSafe};

mod mt;
mod pure;
#[cfg(feature = "miniwasm")]
mod protoreg;

// ---------------------------------------------------------------------------------------
// storage with snapshots

#[derive(Default, Clone)]
pub struct SnapStorage {
    data: BTreeMap<Vec<u8>, Vec<u8>>,
}

impl Storage for SnapStorage {
    fn get(&self, key: &[u8]) -> Option<Vec<u8>> {
        self.data.get(key).cloned()
    }
    fn range<'a>(
        &'a self,
        start: Option<&[u8]>,
        end: Option<&[u8]>,
        order: Order,
    ) -> Box<dyn Iterator<Item = Record> + 'a> {
        use std::ops::Bound;
        let lo = match start {
            Some(s) => Bound::Included(s.to_vec()),
            None => Bound::Unbounded,
        };
        let hi = match end {
            Some(e) => Bound::Excluded(e.to_vec()),
            None => Bound::Unbounded,
        };
        if let (Some(s), Some(e)) = (start, end) {
            if s > e {
                return Box::new(std::iter::empty());
            }
        }
        let it = self
            .data
            .range((lo, hi))
            .map(|(k, v)| (k.clone(), v.clone()));
        match order {
            Order::Ascending => Box::new(it),
            Order::Descending => Box::new(it.rev()),
        }
    }
    fn set(&mut self, key: &[u8], value: &[u8]) {
        if value.is_empty() {
            panic!("TL;DR: Value must not be empty in Storage::set");
        }
        self.data.insert(key.to_vec(), value.to_vec());
    }
    fn remove(&mut self, key: &[u8]) {
        self.data.remove(key);
    }
}

// ---------------------------------------------------------------------------------------
// Api: bech32 validation under the chain's own prefix (what wasmd does), lower-case only

#[derive(Clone)]
pub struct ChainApi {
    prefix: String,
    inner: MockApi,
}

impl ChainApi {
    pub fn new(prefix: &str) -> ChainApi {
        ChainApi {
            prefix: prefix.to_string(),
            inner: MockApi::default(),
        }
    }
}

impl ChainApi {
    fn check(&self, human: &str) -> StdResult<Vec<u8>> {
        use bech32::FromBase32;
        let (hrp, data, variant) =
            bech32::decode(human).map_err(|e| StdError::generic_err(format!("bech32: {e}")))?;
        if variant != bech32::Variant::Bech32 {
            return Err(StdError::generic_err("bech32m not accepted"));
        }
        if hrp != self.prefix {
            return Err(StdError::generic_err("wrong chain prefix"));
        }
        if human.chars().any(|c| c.is_ascii_uppercase()) {
            return Err(StdError::generic_err("address not normalized"));
        }
        let bytes =
            Vec::<u8>::from_base32(&data).map_err(|e| StdError::generic_err(format!("{e}")))?;
        if bytes.len() != 20 && bytes.len() != 32 {
            return Err(StdError::generic_err("address length"));
        }
        Ok(bytes)
    }
}

impl Api for ChainApi {
    fn addr_validate(&self, human: &str) -> StdResult<Addr> {
        self.check(human)?;
        Ok(Addr::unchecked(human))
    }
    fn addr_canonicalize(&self, human: &str) -> StdResult<CanonicalAddr> {
        Ok(CanonicalAddr::from(self.check(human)?))
    }
    fn addr_humanize(&self, canonical: &CanonicalAddr) -> StdResult<Addr> {
        use bech32::ToBase32;
        let s = bech32::encode(
            &self.prefix,
            canonical.as_slice().to_base32(),
            bech32::Variant::Bech32,
        )
        .map_err(|e| StdError::generic_err(format!("{e}")))?;
        Ok(Addr::unchecked(s))
    }
    fn secp256k1_verify(&self, a: &[u8], b: &[u8], c: &[u8]) -> Result<bool, VerificationError> {
        self.inner.secp256k1_verify(a, b, c)
    }
    fn secp256k1_recover_pubkey(
        &self,
        a: &[u8],
        b: &[u8],
        c: u8,
    ) -> Result<Vec<u8>, RecoverPubkeyError> {
        self.inner.secp256k1_recover_pubkey(a, b, c)
    }
    fn ed25519_verify(&self, a: &[u8], b: &[u8], c: &[u8]) -> Result<bool, VerificationError> {
        self.inner.ed25519_verify(a, b, c)
    }
    fn ed25519_batch_verify(
        &self,
        a: &[&[u8]],
        b: &[&[u8]],
        c: &[&[u8]],
    ) -> Result<bool, VerificationError> {
        self.inner.ed25519_batch_verify(a, b, c)
    }
    fn debug(&self, _message: &str) {}
}

type Deps = OwnedDeps<SnapStorage, ChainApi, MockQuerier>;

// ---------------------------------------------------------------------------------------
// panic capture

thread_local! {
    pub(crate) static LAST_PANIC: RefCell<String> = RefCell::new(String::new());
}

fn install_panic_hook() {
    std::panic::set_hook(Box::new(|info| {
        let msg = if let Some(s) = info.payload().downcast_ref::<&str>() {
            s.to_string()
        } else if let Some(s) = info.payload().downcast_ref::<String>() {
            s.clone()
        } else {
            "<non-string panic>".to_string()
        };
        let loc = info
            .location()
            .map(|l| format!("{}:{}", l.file(), l.line()))
            .unwrap_or_default();
        LAST_PANIC.with(|p| *p.borrow_mut() = format!("{msg} @ {loc}"));
    }));
}

// ---------------------------------------------------------------------------------------

#[derive(Clone, Copy, PartialEq)]
enum Which {
    Staking,
    Treasury,
}

struct Sim {
    which: Which,
    deps: Deps,
    env: Env,
    snaps: Vec<SnapStorage>,
}

fn err_kind(dbg: &str) -> String {
    dbg.chars()
        .take_while(|c| c.is_ascii_alphanumeric() || *c == '_')
        .collect()
}

pub(crate) fn err_json<E: std::fmt::Debug + std::fmt::Display>(e: &E) -> Value {
    let dbg = format!("{:?}", e);
    // second level for the wrapping variants
    let kind = err_kind(&dbg);
    let inner = dbg
        .find('(')
        .map(|i| err_kind(&dbg[i + 1..]))
        .unwrap_or_default();
    json!({"err": {"kind": kind, "inner": inner, "text": format!("{}", e)}})
}

pub(crate) fn response_json(r: &Response) -> Value {
    json!({"ok": serde_json::to_value(r).unwrap()})
}

pub(crate) fn parse_coins(v: &Value) -> Result<Vec<Coin>, String> {
    let mut out = vec![];
    if let Some(arr) = v.as_array() {
        for c in arr {
            let denom = c["denom"].as_str().ok_or("denom")?.to_string();
            let amount: u128 = c["amount"]
                .as_str()
                .ok_or("amount")?
                .parse()
                .map_err(|_| "amount parse")?;
            out.push(Coin {
                denom,
                amount: Uint128::new(amount),
            });
        }
    }
    Ok(out)
}

impl Sim {
    fn new(which: Which, prefix: &str, addr: &str, chain_id: &str) -> Sim {
        let deps = OwnedDeps {
            storage: SnapStorage::default(),
            api: ChainApi {
                prefix: prefix.to_string(),
                inner: MockApi::default(),
            },
            querier: MockQuerier::default(),
            custom_query_type: PhantomData,
        };
        let env = Env {
            block: BlockInfo {
                height: 12_345,
                time: Timestamp::from_nanos(1_571_797_419_879_305_533),
                chain_id: chain_id.to_string(),
            },
            transaction: Some(TransactionInfo { index: 3 }),
            contract: ContractInfo {
                address: Addr::unchecked(addr),
            },
        };
        Sim {
            which,
            deps,
            env,
            snaps: vec![],
        }
    }

    /// run one state-changing entry point with per-call atomicity and panic capture
    fn guarded<F>(&mut self, f: F) -> Value
    where
        F: FnOnce(&mut Deps, Env) -> Value,
    {
        let before = self.deps.storage.clone();
        let env = self.env.clone();
        let deps = &mut self.deps;
        let r = catch_unwind(AssertUnwindSafe(|| f(deps, env)));
        match r {
            Ok(v) => {
                if v.get("ok").is_none() {
                    self.deps.storage = before;
                }
                v
            }
            Err(_) => {
                self.deps.storage = before;
                let msg = LAST_PANIC.with(|p| p.borrow().clone());
                json!({"panic": msg})
            }
        }
    }

    fn info(req: &Value) -> Result<MessageInfo, String> {
        Ok(MessageInfo {
            sender: Addr::unchecked(req["sender"].as_str().ok_or("sender")?),
            funds: parse_coins(&req["funds"])?,
        })
    }

    fn msg_bytes(req: &Value) -> Vec<u8> {
        serde_json::to_vec(&req["msg"]).unwrap()
    }

    fn handle(&mut self, req: &Value) -> Value {
        let op = req["op"].as_str().unwrap_or("");
        match op {
            "env" => {
                let t: u64 = req["time"].as_str().unwrap().parse().unwrap();
                self.env.block.time = Timestamp::from_nanos(t);
                self.env.block.height = req["height"].as_u64().unwrap_or(1);
                self.env.transaction = req["tx"]
                    .as_u64()
                    .map(|i| TransactionInfo { index: i as u32 });
                json!({"ok": null})
            }
            "bal" => {
                // the bank balances the contract would see through its querier (implementation-led runs keep
                // them equal to the chain ledger before every entry-point call)
                let coins = parse_coins(&req["coins"]).unwrap_or_default();
                self.deps
                    .querier
                    .update_balance(req["addr"].as_str().unwrap_or(""), coins);
                json!({"ok": null})
            }
            "snap" => {
                self.snaps.push(self.deps.storage.clone());
                json!({"ok": null})
            }
            "rollback" => {
                if let Some(s) = self.snaps.pop() {
                    self.deps.storage = s;
                }
                json!({"ok": null})
            }
            "commit" => {
                self.snaps.pop();
                json!({"ok": null})
            }
            "instantiate" => {
                let info = match Self::info(req) {
                    Ok(i) => i,
                    Err(e) => return json!({"bad": e}),
                };
                let bytes = Self::msg_bytes(req);
                let which = self.which;
                self.guarded(move |deps, env| match which {
                    Which::Staking => match from_json::<staking::msg::InstantiateMsg>(&bytes) {
                        Err(e) => json!({"err": {"kind": "Parse", "inner": "", "text": e.to_string()}}),
                        Ok(m) => match staking::contract::instantiate(deps.as_mut(), env, info, m)
                        {
                            Ok(r) => response_json(&r),
                            Err(e) => err_json(&e),
                        },
                    },
                    Which::Treasury => match from_json::<treasury::msg::InstantiateMsg>(&bytes) {
                        Err(e) => json!({"err": {"kind": "Parse", "inner": "", "text": e.to_string()}}),
                        Ok(m) => {
                            match treasury::contract::instantiate(deps.as_mut(), env, info, m) {
                                Ok(r) => response_json(&r),
                                Err(e) => err_json(&e),
                            }
                        }
                    },
                })
            }
            "execute" => {
                let info = match Self::info(req) {
                    Ok(i) => i,
                    Err(e) => return json!({"bad": e}),
                };
                let bytes = Self::msg_bytes(req);
                let which = self.which;
                self.guarded(move |deps, env| match which {
                    Which::Staking => match from_json::<staking::msg::ExecuteMsg>(&bytes) {
                        Err(e) => json!({"err": {"kind": "Parse", "inner": "", "text": e.to_string()}}),
                        Ok(m) => match staking::contract::execute(deps.as_mut(), env, info, m) {
                            Ok(r) => response_json(&r),
                            Err(e) => err_json(&e),
                        },
                    },
                    Which::Treasury => match from_json::<treasury::msg::ExecuteMsg>(&bytes) {
                        Err(e) => json!({"err": {"kind": "Parse", "inner": "", "text": e.to_string()}}),
                        Ok(m) => match treasury::contract::execute(deps.as_mut(), env, info, m) {
                            Ok(r) => response_json(&r),
                            Err(e) => err_json(&e),
                        },
                    },
                })
            }
            "sudo" => {
                let bytes = Self::msg_bytes(req);
                if self.which != Which::Staking {
                    return json!({"bad": "no sudo"});
                }
                self.guarded(move |deps, env| {
                    match from_json::<staking::msg::SudoMsg>(&bytes) {
                        Err(e) => json!({"err": {"kind": "Parse", "inner": "", "text": e.to_string()}}),
                        Ok(m) => match staking::contract::sudo(deps.as_mut(), env, m) {
                            Ok(r) => response_json(&r),
                            Err(e) => err_json(&e),
                        },
                    }
                })
            }
            "reply" => {
                if self.which != Which::Staking {
                    return json!({"bad": "no reply"});
                }
                let id = req["id"].as_u64().unwrap_or(0);
                let result = if let Some(seq) = req["result"].get("ok") {
                    // MsgTransferResponse { sequence } encoded as protobuf
                    let resp = staking::ack::MsgTransferResponse {
                        sequence: seq.as_u64().unwrap_or(0),
                    };
                    let data = prost::Message::encode_to_vec(&resp);
                    SubMsgResult::Ok(SubMsgResponse {
                        events: vec![],
                        data: Some(Binary::from(data)),
                    })
                } else if let Some(raw) = req["result"].get("ok_raw") {
                    let data = hex::decode(raw.as_str().unwrap_or("")).unwrap_or_default();
                    SubMsgResult::Ok(SubMsgResponse {
                        events: vec![],
                        data: Some(Binary::from(data)),
                    })
                } else if req["result"].get("ok_nodata").is_some() {
                    SubMsgResult::Ok(SubMsgResponse {
                        events: vec![],
                        data: None,
                    })
                } else {
                    SubMsgResult::Err(
                        req["result"]["err"]
                            .as_str()
                            .unwrap_or("error")
                            .to_string(),
                    )
                };
                self.guarded(move |deps, env| {
                    match staking::contract::reply(deps.as_mut(), env, Reply { id, result }) {
                        Ok(r) => response_json(&r),
                        Err(e) => err_json(&e),
                    }
                })
            }
            "migrate" => {
                let bytes = Self::msg_bytes(req);
                let which = self.which;
                self.guarded(move |deps, env| match which {
                    Which::Staking => match from_json::<staking::msg::MigrateMsg>(&bytes) {
                        Err(e) => json!({"err": {"kind": "Parse", "inner": "", "text": e.to_string()}}),
                        Ok(m) => match staking::contract::migrate(deps.as_mut(), env, m) {
                            Ok(r) => response_json(&r),
                            Err(e) => err_json(&e),
                        },
                    },
                    Which::Treasury => match from_json::<treasury::msg::MigrateMsg>(&bytes) {
                        Err(e) => json!({"err": {"kind": "Parse", "inner": "", "text": e.to_string()}}),
                        Ok(m) => match treasury::contract::migrate(deps.as_mut(), env, m) {
                            Ok(r) => response_json(&r),
                            Err(e) => err_json(&e),
                        },
                    },
                })
            }
            "query" => self.query(&req["msg"]),
            "dump" => {
                let users: Vec<String> = req["users"]
                    .as_array()
                    .map(|a| {
                        a.iter()
                            .filter_map(|u| u.as_str().map(|s| s.to_string()))
                            .collect()
                    })
                    .unwrap_or_default();
                self.dump(&users)
            }
            "rawset" => {
                let k = hex::decode(req["key"].as_str().unwrap_or("")).unwrap_or_default();
                let v = hex::decode(req["value"].as_str().unwrap_or("")).unwrap_or_default();
                if v.is_empty() {
                    self.deps.storage.data.remove(&k);
                } else {
                    self.deps.storage.data.insert(k, v);
                }
                json!({"ok": null})
            }
            "rawget" => {
                let k = hex::decode(req["key"].as_str().unwrap_or("")).unwrap_or_default();
                match self.deps.storage.data.get(&k) {
                    Some(v) => json!({"ok": hex::encode(v)}),
                    None => json!({"ok": null}),
                }
            }
            "rawdump" => {
                let m: Vec<Value> = self
                    .deps
                    .storage
                    .data
                    .iter()
                    .map(|(k, v)| json!([hex::encode(k), hex::encode(v)]))
                    .collect();
                json!({"ok": m})
            }
            "pure" => {
                let r = catch_unwind(AssertUnwindSafe(|| pure::call(req)));
                match r {
                    Ok(v) => v,
                    Err(_) => json!({"panic": LAST_PANIC.with(|p| p.borrow().clone())}),
                }
            }
            "proto" => {
                #[cfg(feature = "miniwasm")]
                {
                    let r = catch_unwind(AssertUnwindSafe(|| protoreg::call(req)));
                    match r {
                        Ok(v) => v,
                        Err(_) => json!({"panic": LAST_PANIC.with(|p| p.borrow().clone())}),
                    }
                }
                #[cfg(not(feature = "miniwasm"))]
                {
                    json!({"bad": "proto needs the miniwasm build"})
                }
            }
            _ => json!({"bad": format!("unknown op {op}")}),
        }
    }

    fn query(&mut self, msg: &Value) -> Value {
        let bytes = serde_json::to_vec(msg).unwrap();
        let which = self.which;
        let env = self.env.clone();
        let deps = &self.deps;
        let r = catch_unwind(AssertUnwindSafe(|| match which {
            Which::Staking => match from_json::<staking::msg::QueryMsg>(&bytes) {
                Err(e) => json!({"err": {"kind": "Parse", "inner": "", "text": e.to_string()}}),
                Ok(m) => match staking::contract::query(deps.as_ref(), env, m) {
                    Ok(b) => json!({"ok": serde_json::from_slice::<Value>(b.as_slice()).unwrap_or(Value::Null)}),
                    Err(e) => err_json(&e),
                },
            },
            Which::Treasury => match from_json::<treasury::msg::QueryMsg>(&bytes) {
                Err(e) => json!({"err": {"kind": "Parse", "inner": "", "text": e.to_string()}}),
                Ok(m) => match treasury::contract::query(deps.as_ref(), env, m) {
                    Ok(b) => json!({"ok": serde_json::from_slice::<Value>(b.as_slice()).unwrap_or(Value::Null)}),
                    Err(e) => err_json(&e),
                },
            },
        }));
        match r {
            Ok(v) => v,
            Err(_) => json!({"panic": LAST_PANIC.with(|p| p.borrow().clone())}),
        }
    }

    /// one-shot observation of everything the public query interface shows
    fn dump(&mut self, users: &[String]) -> Value {
        let mut out = serde_json::Map::new();
        match self.which {
            Which::Staking => {
                out.insert("config".into(), self.query(&json!({"config": {}})));
                out.insert("state".into(), self.query(&json!({"state": {}})));
                out.insert(
                    "batches".into(),
                    self.query(&json!({"batches": {"start_after": null, "limit": null, "status": null}})),
                );
                out.insert("pending".into(), self.query(&json!({"pending_batch": {}})));
                out.insert(
                    "ibc_queue".into(),
                    self.query(&json!({"ibc_queue": {"start_after": null, "limit": null}})),
                );
                out.insert(
                    "reply_queue".into(),
                    self.query(&json!({"ibc_reply_queue": {"start_after": null, "limit": null}})),
                );
                let mut reqs = serde_json::Map::new();
                for u in users {
                    reqs.insert(
                        u.clone(),
                        self.query(&json!({"unstake_requests": {"user": u}})),
                    );
                }
                out.insert("requests".into(), Value::Object(reqs));
                // read from the raw storage (keys `admin` and `state` of the deployed layout), not through the crate's
                // own constants: a renamed constant or accessor does not concern the harness
                let admin = raw_json(&self.deps.storage, b"admin");
                out.insert("admin".into(), admin.clone().unwrap_or(Value::Null));
                let st = raw_json(&self.deps.storage, b"state");
                out.insert(
                    "owner_min_time".into(),
                    st.as_ref().map(|s| s["owner_transfer_min_time"].clone()).unwrap_or(Value::Null),
                );
                out.insert(
                    "pending_owner".into(),
                    st.as_ref().map(|s| s["pending_owner"].clone()).unwrap_or(Value::Null),
                );
                let ver = cw2_version(&self.deps.storage);
                out.insert("version".into(), ver);
                out.insert(
                    "raw_totals".into(),
                    st.as_ref()
                        .map(|s| {
                            json!({
                                "total_native_token": s["total_native_token"],
                                "total_liquid_stake_token": s["total_liquid_stake_token"],
                                "total_reward_amount": s["total_reward_amount"],
                                "total_fees": s["total_fees"],
                            })
                        })
                        .unwrap_or(Value::Null),
                );
            }
            Which::Treasury => {
                out.insert("config".into(), self.query(&json!({"config": {}})));
                let st = raw_json(&self.deps.storage, b"state");
                out.insert(
                    "owner_min_time".into(),
                    st.as_ref().map(|s| s["owner_transfer_min_time"].clone()).unwrap_or(Value::Null),
                );
                out.insert(
                    "pending_owner".into(),
                    st.as_ref().map(|s| s["pending_owner"].clone()).unwrap_or(Value::Null),
                );
                out.insert(
                    "admin".into(),
                    raw_json(&self.deps.storage, b"admin").unwrap_or(Value::Null),
                );
                out.insert("version".into(), cw2_version(&self.deps.storage));
            }
        }
        json!({"ok": Value::Object(out)})
    }
}

#[cfg(has_sender_prefix)]
fn sender_prefix() -> &'static str {
    staking::helpers::SENDER_PREFIX
}
#[cfg(not(has_sender_prefix))]
fn sender_prefix() -> &'static str {
    "?"
}

fn raw_json(storage: &dyn Storage, key: &[u8]) -> Option<Value> {
    storage.get(key).and_then(|b| serde_json::from_slice::<Value>(&b).ok())
}

#[cfg(has_staking_ibc_timeout)]
fn staking_ibc_timeout() -> String {
    staking::contract::IBC_TIMEOUT.nanos().to_string()
}
#[cfg(not(has_staking_ibc_timeout))]
fn staking_ibc_timeout() -> String {
    "?".to_string()
}
#[cfg(has_treasury_ibc_timeout)]
fn treasury_ibc_timeout() -> String {
    treasury::execute::IBC_TIMEOUT.nanos().to_string()
}
#[cfg(not(has_treasury_ibc_timeout))]
fn treasury_ibc_timeout() -> String {
    "?".to_string()
}

fn cw2_version(storage: &dyn Storage) -> Value {
    match storage.get(b"contract_info") {
        Some(v) => serde_json::from_slice::<Value>(&v).unwrap_or(Value::Null),
        None => Value::Null,
    }
}

fn main() {
    install_panic_hook();
    let stdin = std::io::stdin();
    let stdout = std::io::stdout();
    let mut out = stdout.lock();
    let mut sim: Option<Sim> = None;
    let mut mtw: Option<mt::Mt> = None;
    for line in stdin.lock().lines() {
        let line = match line {
            Ok(l) => l,
            Err(_) => break,
        };
        if line.trim().is_empty() {
            continue;
        }
        let req: Value = match serde_json::from_str(&line) {
            Ok(v) => v,
            Err(e) => {
                writeln!(out, "{}", json!({"bad": format!("json: {e}")})).unwrap();
                out.flush().unwrap();
                continue;
            }
        };
        let resp = match req["op"].as_str() {
            Some("reset") => {
                let which = if req["contract"].as_str() == Some("treasury") {
                    Which::Treasury
                } else {
                    Which::Staking
                };
                sim = Some(Sim::new(
                    which,
                    req["chain_prefix"].as_str().unwrap_or("osmo"),
                    req["addr"].as_str().unwrap_or("cosmos2contract"),
                    req["chain_id"].as_str().unwrap_or("osmosis-1"),
                ));
                json!({"ok": null})
            }
            Some("mt_reset") => {
                let t: u64 = req["time"].as_str().and_then(|s| s.parse().ok()).unwrap_or(0);
                mtw = Some(mt::Mt::new(
                    req["chain_prefix"].as_str().unwrap_or("osmo"),
                    req["addr"].as_str().unwrap_or(""),
                    t,
                    req["height"].as_u64().unwrap_or(1),
                    req["chain_id"].as_str().unwrap_or("osmosis-1"),
                ));
                json!({"ok": null})
            }
            Some(op) if op.starts_with("mt_") => match mtw.as_mut() {
                None => json!({"bad": "mt_reset first"}),
                Some(m) => match op {
                    "mt_boot" => {
                        let mut r = m.boot(req["sender"].as_str().unwrap_or(""), &req["msg"]);
                        r["ledger"] = m.ledger(&req["accounts"], &req["denoms"]);
                        r
                    }
                    "mt_event" => {
                        let mut r = m.event(&req["ev"]);
                        if r.get("bad").is_none() {
                            r["ledger"] = m.ledger(&req["accounts"], &req["denoms"]);
                        }
                        r
                    }
                    "mt_dump" => {
                        let users: Vec<String> = req["users"]
                            .as_array()
                            .map(|a| a.iter().filter_map(|u| u.as_str().map(|s| s.to_string())).collect())
                            .unwrap_or_default();
                        json!({"ok": m.dump(&users)})
                    }
                    "mt_rawset" => {
                        let k = hex::decode(req["key"].as_str().unwrap_or("")).unwrap_or_default();
                        let v = hex::decode(req["value"].as_str().unwrap_or("")).unwrap_or_default();
                        m.rawset(&k, &v);
                        json!({"ok": null})
                    }
                    "mt_rawdump" => json!({"ok": m.rawdump()}),
                    _ => json!({"bad": format!("unknown op {op}")}),
                },
            },
            Some("const") => json!({"ok": {
                "staking_name": staking::contract::CONTRACT_NAME,
                "staking_version": staking::contract::CONTRACT_VERSION,
                "ibc_timeout_ns": staking_ibc_timeout(),
                "treasury_ibc_timeout_ns": treasury_ibc_timeout(),
                "sender_prefix": sender_prefix(),
                "build": if cfg!(feature = "miniwasm") { "miniwasm" } else { "osmosis" },
            }}),
            Some("quit") => break,
            _ => match sim.as_mut() {
                Some(s) => s.handle(&req),
                None => {
                    if req["op"].as_str() == Some("pure") || req["op"].as_str() == Some("proto") {
                        let mut tmp = Sim::new(Which::Staking, "osmo", "osmo1contract", "osmosis-1");
                        tmp.handle(&req)
                    } else {
                        json!({"bad": "reset first"})
                    }
                }
            },
        };
        writeln!(out, "{}", resp).unwrap();
        out.flush().unwrap();
    }
}
