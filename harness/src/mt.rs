//! Reference chain ("mt" world): the real staking contract inside cw-multi-test's `WasmKeeper` and
//! `BankKeeper` (the CosmWasm team's own rendering of transaction / sub-message / reply / rollback
//! semantics and of the bank module).  The Lean chain model (`MW/Chain/World.lean`) is part of the
//! trusted base of every world-level theorem; this module lets every co-simulated event be executed a
//! second time by code that was not written for this project, and the orchestrator compares
//!   * which entry points the chain called, in which order, with which arguments and results,
//!   * whether the transaction committed,
//!   * the bank balances / supply / packet list afterwards,
//!   * the contract's query answers afterwards
//! with what the Lean chain model computed.
//!
//! What is *ours* here (and therefore not an independent opinion): the routing of Stargate messages
//! (token factory, MsgTransfer, MsgSend, MsgExecuteContract) to the bank keeper, the packet list and the
//! ibc-hooks delivery.  What is cw-multi-test's: moving the attached funds, calling the contract,
//! dispatching the returned sub-messages depth-first in order, `reply` on `ReplyOn::{Always,Success,Error}`
//! with the sub-message's data or error, discarding the writes of a failed sub-message, failing the whole
//! call when a message or a reply fails, balance arithmetic.

use crate::{err_json, response_json, ChainApi, SnapStorage, LAST_PANIC};
use anyhow::{anyhow, bail, Result as AnyResult};
use cosmwasm_std::testing::MockQuerier;
use cosmwasm_std::{
    from_json, Addr, Api, BalanceResponse, BankMsg, BankQuery, Binary, BlockInfo, CanonicalAddr,
    Coin, CosmosMsg, Deps, DepsMut, Empty, Env, MessageInfo, QueryRequest, RecoverPubkeyError,
    Reply, Response, StdResult, Storage, SubMsgResult, Timestamp, TransactionInfo, Uint128,
    VerificationError, WasmMsg,
};
use cw_multi_test::{
    AddressGenerator, AppResponse, BankKeeper, BankSudo, Contract, CosmosRouter, Module, SudoMsg,
    Wasm, WasmKeeper, WasmSudo,
};
use serde_json::{json, Value};
use std::cell::{Cell, RefCell};
use std::panic::{catch_unwind, AssertUnwindSafe};

thread_local! {
    static LOG: RefCell<Vec<Value>> = RefCell::new(vec![]);
    static TXI: Cell<Option<u32>> = Cell::new(Some(0));
    static FAIL_ORACLE: Cell<bool> = Cell::new(false);
    static FAIL_TRANSFER: RefCell<Vec<u64>> = RefCell::new(vec![]);
    static TRANSFERS: Cell<u64> = Cell::new(0);
    static NEXT_ADDR: RefCell<String> = RefCell::new(String::new());
}

const ESCROW: &str = "ibc-escrow";
const SIDE_KEY: &[u8] = b"\x00\x06mtside";

// ---- protobuf shapes of the messages the contract emits (decoded here, independently of osmosis-std) ----
#[derive(Clone, PartialEq, prost::Message)]
struct PCoin {
    #[prost(string, tag = "1")]
    denom: String,
    #[prost(string, tag = "2")]
    amount: String,
}
#[derive(Clone, PartialEq, prost::Message)]
struct PCreateDenom {
    #[prost(string, tag = "1")]
    sender: String,
    #[prost(string, tag = "2")]
    subdenom: String,
}
#[derive(Clone, PartialEq, prost::Message)]
struct PMintBurn {
    #[prost(string, tag = "1")]
    sender: String,
    #[prost(message, optional, tag = "2")]
    amount: Option<PCoin>,
    #[prost(string, tag = "3")]
    other: String,
}
#[derive(Clone, PartialEq, prost::Message)]
struct PMsgSend {
    #[prost(string, tag = "1")]
    from: String,
    #[prost(string, tag = "2")]
    to: String,
    #[prost(message, repeated, tag = "3")]
    amount: Vec<PCoin>,
}
#[derive(Clone, PartialEq, prost::Message)]
struct PExec {
    #[prost(string, tag = "1")]
    sender: String,
    #[prost(string, tag = "2")]
    contract: String,
    #[prost(bytes, tag = "3")]
    msg: Vec<u8>,
    #[prost(message, repeated, tag = "5")]
    funds: Vec<PCoin>,
}
#[derive(Clone, PartialEq, prost::Message)]
struct PTransfer {
    #[prost(string, tag = "1")]
    port: String,
    #[prost(string, tag = "2")]
    channel: String,
    #[prost(message, optional, tag = "3")]
    token: Option<PCoin>,
    #[prost(string, tag = "4")]
    sender: String,
    #[prost(string, tag = "5")]
    receiver: String,
    #[prost(uint64, tag = "7")]
    timeout_timestamp: u64,
    #[prost(string, tag = "8")]
    memo: String,
}
#[derive(Clone, PartialEq, prost::Message)]
struct PTransferResponse {
    #[prost(uint64, tag = "1")]
    sequence: u64,
}

fn pcoin(c: &Option<PCoin>) -> AnyResult<Coin> {
    let c = c.clone().unwrap_or_default();
    let amount: u128 = if c.amount.is_empty() {
        0
    } else {
        c.amount.parse().map_err(|_| anyhow!("amount"))?
    };
    Ok(Coin {
        denom: c.denom,
        amount: Uint128::new(amount),
    })
}

// ---- an Api that accepts every address (bank bookkeeping of native-chain and escrow accounts) ----
struct LaxApi;
impl Api for LaxApi {
    fn addr_validate(&self, human: &str) -> StdResult<Addr> {
        Ok(Addr::unchecked(human))
    }
    fn addr_canonicalize(&self, human: &str) -> StdResult<CanonicalAddr> {
        Ok(CanonicalAddr::from(human.as_bytes()))
    }
    fn addr_humanize(&self, c: &CanonicalAddr) -> StdResult<Addr> {
        Ok(Addr::unchecked(String::from_utf8_lossy(c.as_slice()).to_string()))
    }
    fn secp256k1_verify(&self, _: &[u8], _: &[u8], _: &[u8]) -> Result<bool, VerificationError> {
        Ok(false)
    }
    fn secp256k1_recover_pubkey(
        &self,
        _: &[u8],
        _: &[u8],
        _: u8,
    ) -> Result<Vec<u8>, RecoverPubkeyError> {
        Ok(vec![])
    }
    fn ed25519_verify(&self, _: &[u8], _: &[u8], _: &[u8]) -> Result<bool, VerificationError> {
        Ok(false)
    }
    fn ed25519_batch_verify(
        &self,
        _: &[&[u8]],
        _: &[&[u8]],
        _: &[&[u8]],
    ) -> Result<bool, VerificationError> {
        Ok(false)
    }
    fn debug(&self, _: &str) {}
}

// ---- the real contract behind cw-multi-test's `Contract` trait, with a call log ----
struct StakingC;

fn fix_env(mut env: Env) -> Env {
    env.transaction = TXI.with(|t| t.get()).map(|i| TransactionInfo { index: i });
    env
}

fn coins_json(cs: &[Coin]) -> Value {
    Value::Array(
        cs.iter()
            .map(|c| json!({"denom": c.denom, "amount": c.amount.to_string()}))
            .collect(),
    )
}

fn logged<E: std::fmt::Debug + std::fmt::Display>(
    mut rec: Value,
    f: impl FnOnce() -> Result<Response, E>,
) -> AnyResult<Response> {
    let r = catch_unwind(AssertUnwindSafe(f));
    let (res, out) = match r {
        Ok(Ok(resp)) => (response_json(&resp), Ok(resp)),
        Ok(Err(e)) => (err_json(&e), Err(anyhow!("{}", e))),
        Err(_) => (
            json!({"panic": LAST_PANIC.with(|p| p.borrow().clone())}),
            Err(anyhow!("panic")),
        ),
    };
    rec["result"] = res;
    LOG.with(|l| l.borrow_mut().push(rec));
    out
}

fn parse_failed(mut rec: Value, e: impl std::fmt::Display) -> AnyResult<Response> {
    rec["result"] = json!({"err": {"kind": "Parse", "inner": "", "text": e.to_string()}});
    LOG.with(|l| l.borrow_mut().push(rec));
    Err(anyhow!("parse"))
}

impl Contract<Empty, Empty> for StakingC {
    fn execute(
        &self,
        deps: DepsMut,
        env: Env,
        info: MessageInfo,
        msg: Vec<u8>,
    ) -> AnyResult<Response> {
        let env = fix_env(env);
        let v: Value = serde_json::from_slice(&msg).unwrap_or(Value::Null);
        let rec = json!({"entry": "execute", "sender": info.sender.to_string(), "funds": coins_json(&info.funds), "msg": v});
        match from_json::<staking::msg::ExecuteMsg>(&msg) {
            Err(e) => parse_failed(rec, e),
            Ok(m) => logged(rec, move || staking::contract::execute(deps, env, info, m)),
        }
    }
    fn instantiate(
        &self,
        deps: DepsMut,
        env: Env,
        info: MessageInfo,
        msg: Vec<u8>,
    ) -> AnyResult<Response> {
        let env = fix_env(env);
        let v: Value = serde_json::from_slice(&msg).unwrap_or(Value::Null);
        let rec = json!({"entry": "instantiate", "sender": info.sender.to_string(), "funds": coins_json(&info.funds), "msg": v});
        match from_json::<staking::msg::InstantiateMsg>(&msg) {
            Err(e) => parse_failed(rec, e),
            Ok(m) => logged(rec, move || staking::contract::instantiate(deps, env, info, m)),
        }
    }
    fn query(&self, deps: Deps, env: Env, msg: Vec<u8>) -> AnyResult<Binary> {
        let m = from_json::<staking::msg::QueryMsg>(&msg).map_err(|e| anyhow!("{}", e))?;
        staking::contract::query(deps, env, m).map_err(|e| anyhow!("{}", e))
    }
    fn sudo(&self, deps: DepsMut, env: Env, msg: Vec<u8>) -> AnyResult<Response> {
        let env = fix_env(env);
        let v: Value = serde_json::from_slice(&msg).unwrap_or(Value::Null);
        let rec = json!({"entry": "sudo", "msg": v});
        match from_json::<staking::msg::SudoMsg>(&msg) {
            Err(e) => parse_failed(rec, e),
            Ok(m) => logged(rec, move || staking::contract::sudo(deps, env, m)),
        }
    }
    fn reply(&self, deps: DepsMut, env: Env, msg: Reply) -> AnyResult<Response> {
        let env = fix_env(env);
        let result_in = match &msg.result {
            SubMsgResult::Ok(r) => match &r.data {
                None => json!({"ok_nodata": true}),
                Some(d) => match <PTransferResponse as prost::Message>::decode(d.as_slice()) {
                    Ok(t) => json!({"ok": t.sequence}),
                    Err(_) => json!({"ok_raw": hex::encode(d.as_slice())}),
                },
            },
            SubMsgResult::Err(e) => json!({"err": e}),
        };
        let rec = json!({"entry": "reply", "id": msg.id, "result_in": result_in});
        logged(rec, move || staking::contract::reply(deps, env, msg))
    }
    fn migrate(&self, _deps: DepsMut, _env: Env, _msg: Vec<u8>) -> AnyResult<Response> {
        bail!("migrate is not driven through the mt world")
    }
}

struct FixedAddr;
impl AddressGenerator for FixedAddr {
    fn next_address(&self, _storage: &mut dyn Storage) -> Addr {
        Addr::unchecked(NEXT_ADDR.with(|a| a.borrow().clone()))
    }
}

// ---- chain-side state that must roll back with the storage: kept *in* the storage ----
#[derive(serde::Serialize, serde::Deserialize, Default, Clone)]
struct Side {
    next_seq: u64,
    pkts: Vec<Value>,
    supply: std::collections::BTreeMap<String, String>,
    remote: std::collections::BTreeMap<String, String>,
}

fn load_side(storage: &dyn Storage) -> Side {
    storage
        .get(SIDE_KEY)
        .and_then(|b| serde_json::from_slice(&b).ok())
        .unwrap_or(Side {
            next_seq: 1,
            ..Default::default()
        })
}
fn save_side(storage: &mut dyn Storage, s: &Side) {
    storage.set(SIDE_KEY, &serde_json::to_vec(s).unwrap());
}
fn amt(m: &std::collections::BTreeMap<String, String>, k: &str) -> u128 {
    m.get(k).and_then(|s| s.parse().ok()).unwrap_or(0)
}

pub struct MtRouter {
    wasm: WasmKeeper<Empty, Empty>,
    bank: BankKeeper,
}

impl MtRouter {
    fn balance(&self, storage: &dyn Storage, block: &BlockInfo, addr: &str, denom: &str) -> u128 {
        let q = MockQuerier::<Empty>::default();
        let r = self.bank.query(
            &LaxApi,
            storage,
            &q,
            block,
            BankQuery::Balance {
                address: addr.to_string(),
                denom: denom.to_string(),
            },
        );
        match r {
            Ok(b) => from_json::<BalanceResponse>(&b)
                .map(|x| x.amount.amount.u128())
                .unwrap_or(0),
            Err(_) => 0,
        }
    }

    /// Cosmos SDK `Coins.Validate`: every amount strictly positive (cw-multi-test silently drops zero coins)
    fn sdk_positive(coins: &[Coin]) -> AnyResult<()> {
        if coins.is_empty() {
            bail!("empty coins");
        }
        if coins.iter().any(|c| c.amount.is_zero()) {
            bail!("zero coin");
        }
        Ok(())
    }

    fn stargate(
        &self,
        _api: &dyn Api,
        storage: &mut dyn Storage,
        block: &BlockInfo,
        sender: Addr,
        url: &str,
        value: &[u8],
    ) -> AnyResult<AppResponse> {
        use prost::Message;
        match url {
            "/osmosis.tokenfactory.v1beta1.MsgCreateDenom"
            | "/miniwasm.tokenfactory.v1.MsgCreateDenom" => {
                let m = PCreateDenom::decode(value)?;
                if m.sender != sender.as_str() {
                    bail!("signer");
                }
                Ok(AppResponse::default())
            }
            "/osmosis.tokenfactory.v1beta1.MsgMint" | "/miniwasm.tokenfactory.v1.MsgMint" => {
                let m = PMintBurn::decode(value)?;
                let c = pcoin(&m.amount)?;
                if m.sender != sender.as_str() || c.amount.is_zero() {
                    bail!("mint refused");
                }
                self.bank.sudo(
                    &LaxApi,
                    storage,
                    self,
                    block,
                    BankSudo::Mint {
                        to_address: m.other.clone(),
                        amount: vec![c.clone()],
                    },
                )?;
                let mut s = load_side(storage);
                let cur = amt(&s.supply, &c.denom);
                s.supply
                    .insert(c.denom.clone(), (cur + c.amount.u128()).to_string());
                save_side(storage, &s);
                Ok(AppResponse::default())
            }
            "/osmosis.tokenfactory.v1beta1.MsgBurn" | "/miniwasm.tokenfactory.v1.MsgBurn" => {
                let m = PMintBurn::decode(value)?;
                let c = pcoin(&m.amount)?;
                let from = if url.starts_with("/miniwasm") {
                    m.sender.clone()
                } else {
                    m.other.clone()
                };
                let mut s = load_side(storage);
                let cur = amt(&s.supply, &c.denom);
                if m.sender != sender.as_str()
                    || c.amount.is_zero()
                    || cur < c.amount.u128()
                    || self.balance(storage, block, &from, &c.denom) < c.amount.u128()
                {
                    bail!("burn refused");
                }
                self.bank.execute(
                    &LaxApi,
                    storage,
                    self,
                    block,
                    Addr::unchecked(from),
                    BankMsg::Burn {
                        amount: vec![c.clone()],
                    },
                )?;
                s.supply
                    .insert(c.denom.clone(), (cur - c.amount.u128()).to_string());
                save_side(storage, &s);
                Ok(AppResponse::default())
            }
            "/cosmos.bank.v1beta1.MsgSend" => {
                let m = PMsgSend::decode(value)?;
                let coins: Vec<Coin> = m
                    .amount
                    .iter()
                    .map(|c| pcoin(&Some(c.clone())))
                    .collect::<AnyResult<_>>()?;
                if m.from != sender.as_str() {
                    bail!("signer");
                }
                Self::sdk_positive(&coins)?;
                self.bank.execute(
                    &LaxApi,
                    storage,
                    self,
                    block,
                    sender,
                    BankMsg::Send {
                        to_address: m.to,
                        amount: coins,
                    },
                )
            }
            "/cosmwasm.wasm.v1.MsgExecuteContract" => {
                let m = PExec::decode(value)?;
                if m.sender != sender.as_str() || FAIL_ORACLE.with(|f| f.get()) {
                    bail!("execute refused");
                }
                Ok(AppResponse::default())
            }
            "/ibc.applications.transfer.v1.MsgTransfer" => {
                let m = PTransfer::decode(value)?;
                let c = pcoin(&m.token)?;
                let idx = TRANSFERS.with(|t| {
                    let i = t.get();
                    t.set(i + 1);
                    i
                });
                if m.sender != sender.as_str()
                    || c.amount.is_zero()
                    || FAIL_TRANSFER.with(|f| f.borrow().contains(&idx))
                {
                    bail!("transfer cannot be submitted");
                }
                self.bank.execute(
                    &LaxApi,
                    storage,
                    self,
                    block,
                    sender.clone(),
                    BankMsg::Send {
                        to_address: ESCROW.to_string(),
                        amount: vec![c.clone()],
                    },
                )?;
                let mut s = load_side(storage);
                let seq = s.next_seq;
                s.next_seq += 1;
                s.pkts.push(json!({"seq": seq, "channel": m.channel, "sender": m.sender, "receiver": m.receiver,
                    "coin": {"denom": c.denom, "amount": c.amount.to_string()}, "state": "pending"}));
                save_side(storage, &s);
                let data = PTransferResponse { sequence: seq }.encode_to_vec();
                Ok(AppResponse {
                    events: vec![],
                    data: Some(Binary::from(data)),
                })
            }
            _ => bail!("no module handles {url}"),
        }
    }
}

impl CosmosRouter for MtRouter {
    type ExecC = Empty;
    type QueryC = Empty;

    fn execute(
        &self,
        api: &dyn Api,
        storage: &mut dyn Storage,
        block: &BlockInfo,
        sender: Addr,
        msg: CosmosMsg<Empty>,
    ) -> AnyResult<AppResponse> {
        match msg {
            CosmosMsg::Wasm(m) => self.wasm.execute(api, storage, self, block, sender, m),
            CosmosMsg::Bank(BankMsg::Send { to_address, amount }) => {
                Self::sdk_positive(&amount)?;
                self.bank.execute(
                    &LaxApi,
                    storage,
                    self,
                    block,
                    sender,
                    BankMsg::Send { to_address, amount },
                )
            }
            CosmosMsg::Stargate { type_url, value } => {
                self.stargate(api, storage, block, sender, &type_url, value.as_slice())
            }
            m => bail!("unsupported message {:?}", m),
        }
    }

    fn query(
        &self,
        api: &dyn Api,
        storage: &dyn Storage,
        block: &BlockInfo,
        request: QueryRequest<Empty>,
    ) -> AnyResult<Binary> {
        match request {
            QueryRequest::Bank(q) => {
                let mq = MockQuerier::<Empty>::default();
                self.bank.query(api, storage, &mq, block, q)
            }
            _ => bail!("only bank queries are served by the reference chain"),
        }
    }

    fn sudo(
        &self,
        api: &dyn Api,
        storage: &mut dyn Storage,
        block: &BlockInfo,
        msg: SudoMsg,
    ) -> AnyResult<AppResponse> {
        match msg {
            SudoMsg::Wasm(WasmSudo { contract_addr, msg }) => {
                self.wasm.sudo(api, contract_addr, storage, self, block, msg)
            }
            SudoMsg::Bank(m) => self.bank.sudo(&LaxApi, storage, self, block, m),
            _ => bail!("unsupported sudo"),
        }
    }
}

pub struct Mt {
    storage: SnapStorage,
    api: ChainApi,
    router: MtRouter,
    block: BlockInfo,
    contract: String,
    prefix: String,
    code_id: u64,
}

fn coins_of(v: &Value) -> Vec<Coin> {
    crate::parse_coins(v).unwrap_or_default()
}
fn coin_of(v: &Value) -> Coin {
    Coin {
        denom: v["denom"].as_str().unwrap_or("").to_string(),
        amount: Uint128::new(v["amount"].as_str().unwrap_or("0").parse().unwrap_or(0)),
    }
}

impl Mt {
    pub fn new(prefix: &str, contract: &str, time_ns: u64, height: u64, chain_id: &str) -> Mt {
        let mut wasm = WasmKeeper::<Empty, Empty>::new_with_custom_address_generator(FixedAddr);
        let code_id = wasm.store_code(Addr::unchecked("creator"), Box::new(StakingC));
        Mt {
            storage: SnapStorage::default(),
            api: ChainApi::new(prefix),
            router: MtRouter {
                wasm,
                bank: BankKeeper::new(),
            },
            block: BlockInfo {
                height,
                time: Timestamp::from_nanos(time_ns),
                chain_id: chain_id.to_string(),
            },
            contract: contract.to_string(),
            prefix: prefix.to_string(),
            code_id,
        }
    }

    fn arm(&self, faults: &Value, txi: Option<u32>) {
        LOG.with(|l| l.borrow_mut().clear());
        TXI.with(|t| t.set(txi));
        FAIL_ORACLE.with(|f| f.set(faults["fail_oracle"].as_bool().unwrap_or(false)));
        FAIL_TRANSFER.with(|f| {
            *f.borrow_mut() = faults["fail_transfer"]
                .as_array()
                .map(|a| a.iter().filter_map(|x| x.as_u64()).collect())
                .unwrap_or_default()
        });
        TRANSFERS.with(|t| t.set(0));
    }

    fn take_log() -> Vec<Value> {
        LOG.with(|l| std::mem::take(&mut *l.borrow_mut()))
    }

    fn credit(&mut self, to: &str, c: &Coin) -> AnyResult<()> {
        self.router
            .bank
            .sudo(
                &LaxApi,
                &mut self.storage,
                &self.router,
                &self.block,
                BankSudo::Mint {
                    to_address: to.to_string(),
                    amount: vec![c.clone()],
                },
            )
            .map(|_| ())
    }

    fn wasm_tx(&mut self, sender: &str, msg: WasmMsg) -> bool {
        let snap = self.storage.clone();
        let r = self.router.wasm.execute(
            &self.api,
            &mut self.storage,
            &self.router,
            &self.block,
            Addr::unchecked(sender),
            msg,
        );
        if r.is_err() {
            self.storage = snap;
        }
        r.is_ok()
    }

    pub fn boot(&mut self, sender: &str, msg: &Value) -> Value {
        NEXT_ADDR.with(|a| *a.borrow_mut() = self.contract.clone());
        self.arm(&Value::Null, Some(0));
        let ok = self.wasm_tx(
            sender,
            WasmMsg::Instantiate {
                admin: None,
                code_id: self.code_id,
                msg: Binary::from(serde_json::to_vec(msg).unwrap()),
                funds: vec![],
                label: "staking".to_string(),
            },
        );
        json!({"committed": ok, "calls": Self::take_log()})
    }

    fn exec(&mut self, sender: &str, funds: Vec<Coin>, msg: &Value, faults: &Value, txi: Option<u32>) -> (bool, Vec<Value>) {
        self.arm(faults, txi);
        // Cosmos SDK: attached funds with a zero coin are refused before anything runs
        if funds.iter().any(|c| c.amount.is_zero()) {
            return (false, vec![]);
        }
        let ok = self.wasm_tx(
            sender,
            WasmMsg::Execute {
                contract_addr: self.contract.clone(),
                msg: Binary::from(serde_json::to_vec(msg).unwrap()),
                funds,
            },
        );
        (ok, Self::take_log())
    }

    fn sudo(&mut self, msg: Value) -> Vec<Value> {
        self.arm(&Value::Null, Some(0));
        let snap = self.storage.clone();
        let r = self.router.wasm.sudo(
            &self.api,
            Addr::unchecked(self.contract.clone()),
            &mut self.storage,
            &self.router,
            &self.block,
            Binary::from(serde_json::to_vec(&msg).unwrap()),
        );
        if r.is_err() {
            self.storage = snap;
        }
        Self::take_log()
    }

    pub fn event(&mut self, ev: &Value) -> Value {
        let kind = ev["ev"].as_str().unwrap_or("");
        let done = |c: bool, calls: Vec<Value>| json!({"committed": c, "calls": calls});
        match kind {
            "advance" => {
                let dt: u64 = match &ev["dt"] {
                    Value::String(s) => s.parse().unwrap_or(0),
                    v => v.as_u64().unwrap_or(0),
                };
                self.block.time = Timestamp::from_nanos(self.block.time.nanos() + dt);
                self.block.height += ev["dh"].as_u64().unwrap_or(0);
                done(true, vec![])
            }
            "exec" => {
                let txi = match &ev["tx"] {
                    Value::Null if ev.get("tx").is_some() => None,
                    v => Some(v.as_u64().unwrap_or(0) as u32),
                };
                let (ok, calls) = self.exec(
                    ev["sender"].as_str().unwrap_or(""),
                    coins_of(&ev["funds"]),
                    &ev["msg"],
                    &ev["faults"],
                    txi,
                );
                done(ok, calls)
            }
            "hook" => {
                let acct = match staking::helpers::derive_intermediate_sender(
                    ev["channel"].as_str().unwrap_or(""),
                    ev["native_sender"].as_str().unwrap_or(""),
                    &self.prefix,
                ) {
                    Ok(a) => a,
                    Err(_) => return done(false, vec![]),
                };
                let c = coin_of(&ev["coin"]);
                if c.amount.is_zero() {
                    return done(false, vec![]);
                }
                let snap = self.storage.clone();
                if self.credit(&acct, &c).is_err() {
                    self.storage = snap;
                    return done(false, vec![]);
                }
                let (ok, calls) = self.exec(&acct, vec![c], &ev["msg"], &ev["faults"], Some(0));
                if !ok {
                    self.storage = snap;
                }
                done(ok, calls)
            }
            "ack" | "timeout" => {
                let seq = ev["seq"].as_u64().unwrap_or(0);
                let mut s = load_side(&self.storage);
                let pos = s
                    .pkts
                    .iter()
                    .position(|p| p["seq"].as_u64() == Some(seq) && p["state"] == "pending");
                let Some(i) = pos else {
                    return done(false, vec![]);
                };
                let p = s.pkts[i].clone();
                let c = coin_of(&p["coin"]);
                let success = kind == "ack" && ev["success"].as_bool().unwrap_or(false);
                // as in MW/Chain/World.lean (`setPktState`): every packet carrying that sequence number gets the state
                let mark = |s: &mut Side, st: &str| {
                    for q in s.pkts.iter_mut() {
                        if q["seq"].as_u64() == Some(seq) {
                            q["state"] = json!(st);
                        }
                    }
                };
                if success {
                    mark(&mut s, "delivered");
                    let key = format!("{}|{}", p["receiver"].as_str().unwrap_or(""), c.denom);
                    let cur = amt(&s.remote, &key);
                    s.remote.insert(key, (cur + c.amount.u128()).to_string());
                    save_side(&mut self.storage, &s);
                } else {
                    mark(&mut s, "refunded");
                    save_side(&mut self.storage, &s);
                    let _ = self.router.bank.execute(
                        &LaxApi,
                        &mut self.storage,
                        &self.router,
                        &self.block,
                        Addr::unchecked(ESCROW),
                        BankMsg::Send {
                            to_address: p["sender"].as_str().unwrap_or("").to_string(),
                            amount: vec![c],
                        },
                    );
                }
                let msg = if kind == "ack" {
                    json!({"ibc_lifecycle_complete": {"ibc_ack": {"channel": p["channel"], "sequence": seq, "ack": "", "success": success}}})
                } else {
                    json!({"ibc_lifecycle_complete": {"ibc_timeout": {"channel": p["channel"], "sequence": seq}}})
                };
                let calls = self.sudo(msg);
                done(true, calls)
            }
            "stray_ack" => {
                let msg = json!({"ibc_lifecycle_complete": {"ibc_ack": {"channel": ev["channel"], "sequence": ev["seq"], "ack": "", "success": ev["success"]}}});
                let calls = self.sudo(msg);
                done(true, calls)
            }
            "stray_timeout" => {
                let msg = json!({"ibc_lifecycle_complete": {"ibc_timeout": {"channel": ev["channel"], "sequence": ev["seq"]}}});
                let calls = self.sudo(msg);
                done(true, calls)
            }
            "donate" => {
                let c = coin_of(&ev["coin"]);
                let snap = self.storage.clone();
                let r = if c.amount.is_zero() {
                    Err(anyhow!("zero"))
                } else {
                    self.router.bank.execute(
                        &LaxApi,
                        &mut self.storage,
                        &self.router,
                        &self.block,
                        Addr::unchecked(ev["sender"].as_str().unwrap_or("")),
                        BankMsg::Send {
                            to_address: self.contract.clone(),
                            amount: vec![c],
                        },
                    )
                };
                if r.is_err() {
                    self.storage = snap;
                }
                done(r.is_ok(), vec![])
            }
            "reseq" => {
                // packets are numbered per channel: the next sequence the chain assigns is set by the environment
                let mut s = load_side(&self.storage);
                s.next_seq = ev["next"].as_u64().unwrap_or(1);
                save_side(&mut self.storage, &s);
                done(true, vec![])
            }
            "faucet" => {
                let c = coin_of(&ev["coin"]);
                if !c.amount.is_zero() {
                    let _ = self.credit(ev["to"].as_str().unwrap_or(""), &c);
                }
                done(true, vec![])
            }
            _ => json!({"bad": format!("unknown event {kind}")}),
        }
    }

    pub fn ledger(&self, accounts: &Value, denoms: &Value) -> Value {
        let s = load_side(&self.storage);
        let accts: Vec<&str> = accounts
            .as_array()
            .map(|a| a.iter().filter_map(|x| x.as_str()).collect())
            .unwrap_or_default();
        let dens: Vec<&str> = denoms
            .as_array()
            .map(|a| a.iter().filter_map(|x| x.as_str()).collect())
            .unwrap_or_default();
        let mut bal = serde_json::Map::new();
        let mut remote = serde_json::Map::new();
        for a in &accts {
            let mut row = serde_json::Map::new();
            let mut rrow = serde_json::Map::new();
            for d in &dens {
                row.insert(
                    d.to_string(),
                    json!(self.router.balance(&self.storage, &self.block, a, d).to_string()),
                );
                rrow.insert(
                    d.to_string(),
                    json!(amt(&s.remote, &format!("{}|{}", a, d)).to_string()),
                );
            }
            bal.insert(a.to_string(), Value::Object(row));
            remote.insert(a.to_string(), Value::Object(rrow));
        }
        let mut supply = serde_json::Map::new();
        for d in &dens {
            supply.insert(d.to_string(), json!(amt(&s.supply, d).to_string()));
        }
        json!({"bal": bal, "remote": remote, "supply": supply, "pkts": s.pkts, "next_seq": s.next_seq,
               "time": self.block.time.nanos().to_string(), "height": self.block.height})
    }

    pub fn query(&self, msg: &Value) -> Value {
        let q = MockQuerier::<Empty>::default();
        let bytes = serde_json::to_vec(msg).unwrap();
        let r = catch_unwind(AssertUnwindSafe(|| {
            self.router.wasm.query_smart(
                Addr::unchecked(self.contract.clone()),
                &self.api,
                &self.storage,
                &q,
                &self.block,
                bytes,
            )
        }));
        match r {
            Ok(Ok(b)) => json!({"ok": serde_json::from_slice::<Value>(b.as_slice()).unwrap_or(Value::Null)}),
            Ok(Err(e)) => json!({"err": {"kind": "Query", "inner": "", "text": e.to_string()}}),
            Err(_) => json!({"panic": LAST_PANIC.with(|p| p.borrow().clone())}),
        }
    }

    pub fn dump(&self, users: &[String]) -> Value {
        let mut out = serde_json::Map::new();
        out.insert("config".into(), self.query(&json!({"config": {}})));
        out.insert("state".into(), self.query(&json!({"state": {}})));
        out.insert(
            "batches".into(),
            self.query(&json!({"batches": {"start_after": null, "limit": null, "status": null}})),
        );
        out.insert("pending".into(), self.query(&json!({"pending_batch": {}})));
        out.insert(
            "ibc_queue".into(),
            self.query(&json!({"ibc_queue": {"start_after": null, "limit": null}})),
        );
        out.insert(
            "reply_queue".into(),
            self.query(&json!({"ibc_reply_queue": {"start_after": null, "limit": null}})),
        );
        let mut reqs = serde_json::Map::new();
        for u in users {
            reqs.insert(u.clone(), self.query(&json!({"unstake_requests": {"user": u}})));
        }
        out.insert("requests".into(), Value::Object(reqs));
        Value::Object(out)
    }

    /// key of the contract's own storage inside cw-multi-test's namespaces ("wasm" / "contract_data/<addr>")
    fn contract_key(&self, key: &[u8]) -> Vec<u8> {
        fn lp(ns: &[u8]) -> Vec<u8> {
            let mut v = (ns.len() as u16).to_be_bytes().to_vec();
            v.extend_from_slice(ns);
            v
        }
        let mut k = lp(b"wasm");
        k.extend(lp(format!("contract_data/{}", self.contract).as_bytes()));
        k.extend_from_slice(key);
        k
    }

    pub fn rawset(&mut self, key: &[u8], value: &[u8]) {
        let k = self.contract_key(key);
        if value.is_empty() {
            self.storage.remove(&k);
        } else {
            self.storage.set(&k, value);
        }
    }

    pub fn rawdump(&self) -> Value {
        let recs = self
            .router
            .wasm
            .dump_wasm_raw(&self.storage, &Addr::unchecked(self.contract.clone()));
        Value::Array(
            recs.into_iter()
                .map(|(k, v)| json!([hex::encode(k), hex::encode(v)]))
                .collect(),
        )
    }
}
