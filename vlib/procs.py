"""Line-protocol clients for the Rust harness (real contracts) and the Lean driver (model)."""
import base64
import json
import os
import subprocess

ROOT = os.path.dirname(os.path.dirname(os.path.abspath(__file__)))
HARNESS_BIN = {
    "osmosis": os.path.join(ROOT, "harness", "target", "debug", "mw-harness"),
    "miniwasm": os.path.join(ROOT, "harness", "target-miniwasm", "debug", "mw-harness"),
}
DRIVER_BIN = os.path.join(ROOT, "lean", ".lake", "build", "bin", "driver")
# tools/coverage.py points the osmosis build at a binary built with -Cinstrument-coverage
if os.environ.get("MW_HARNESS_BIN"):
    HARNESS_BIN["osmosis"] = os.environ["MW_HARNESS_BIN"]


class Proc:
    def __init__(self, argv):
        self.p = subprocess.Popen(argv, stdin=subprocess.PIPE, stdout=subprocess.PIPE,
                                  stderr=subprocess.DEVNULL, text=True, bufsize=1)
        self.n = 0

    def call(self, req):
        self.n += 1
        self.p.stdin.write(json.dumps(req, separators=(",", ":")) + "\n")
        self.p.stdin.flush()
        line = self.p.stdout.readline()
        if not line:
            raise RuntimeError("process died on request %r" % (req,))
        return json.loads(line)

    def close(self):
        try:
            self.p.stdin.close()
            self.p.wait(timeout=5)
        except Exception:
            self.p.kill()


class Harness(Proc):
    def __init__(self, build="osmosis"):
        super().__init__([HARNESS_BIN[build]])
        self.build = build

    def reset(self, contract, chain_prefix, addr, chain_id=None):
        return self.call({"op": "reset", "contract": contract, "chain_prefix": chain_prefix, "addr": addr, "chain_id": chain_id})

    def env(self, time_ns, height, tx):
        return self.call({"op": "env", "time": str(time_ns), "height": height, "tx": tx})


class Driver(Proc):
    def __init__(self):
        super().__init__([DRIVER_BIN])


def canon_msgs(resp_ok):
    """harness `Response` (serde form) -> the canonical message list the driver prints"""
    out = []
    for m in resp_ok.get("messages", []):
        base = {"id": m["id"], "reply_on": m["reply_on"]}
        msg = m["msg"]
        if "stargate" in msg:
            base.update(kind="stargate", type_url=msg["stargate"]["type_url"],
                        value=base64.b64decode(msg["stargate"]["value"]).hex())
        elif "bank" in msg and "send" in msg["bank"]:
            base.update(kind="bank_send", to=msg["bank"]["send"]["to_address"],
                        amount=msg["bank"]["send"]["amount"])
        else:
            base.update(kind="other", raw=msg)
        if m.get("gas_limit") is not None:
            base["gas_limit"] = m["gas_limit"]
        out.append(base)
    return out


def outcome(res):
    if "ok" in res:
        return "ok"
    if "panic" in res:
        return "panic"
    if "err" in res:
        return "err"
    return "bad"


def err_kind(res):
    """error kind as both sides name it (harness: outer Debug name; Std/Payment/Admin/Version wrap)"""
    if "err" in res:
        return res["err"].get("kind", "?")
    if "panic" in res:
        return "PANIC"
    return ""
