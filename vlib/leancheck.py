"""Proof obligations: build a property module, list its theorems, audit their axioms, scan for
escape hatches.  The kernel is what accepts a theorem; this file only drives it."""
import fcntl
import os
import re
import subprocess
import time

ROOT = os.path.dirname(os.path.dirname(os.path.abspath(__file__)))
LEAN = os.path.join(ROOT, "lean")
ALLOWED_AXIOMS = {"propext", "Classical.choice", "Quot.sound"}
FORBIDDEN = re.compile(r"\b(sorry|admit|native_decide|bv_decide|implemented_by|unsafe )\b|^axiom |maxHeartbeats 0")


class Lock:
    """serialise lake / cargo invocations between concurrently started checks"""

    def __init__(self, name):
        self.path = os.path.join(ROOT, ".lock-" + name)

    def __enter__(self):
        self.f = open(self.path, "w")
        fcntl.flock(self.f, fcntl.LOCK_EX)
        return self

    def __exit__(self, *a):
        fcntl.flock(self.f, fcntl.LOCK_UN)
        self.f.close()


def strip_comments(src):
    # block comments (possibly nested one level) and line comments
    out = []
    depth = 0
    i = 0
    while i < len(src):
        if src.startswith("/-", i):
            depth += 1
            i += 2
        elif src.startswith("-/", i) and depth:
            depth -= 1
            i += 2
        elif depth:
            i += 1
        elif src.startswith("--", i):
            j = src.find("\n", i)
            i = len(src) if j < 0 else j
        else:
            out.append(src[i])
            i += 1
    return "".join(out)


def module_path(module):
    return os.path.join(LEAN, *module.split(".")) + ".lean"


def theorems_of(module):
    src = strip_comments(open(module_path(module)).read())
    ns = re.search(r"^namespace\s+(\S+)", src, re.M)
    prefix = ns.group(1) + "." if ns else ""
    names = re.findall(r"^(?:private\s+)?theorem\s+([A-Za-z_][A-Za-z0-9_'.]*)", src, re.M)
    return [prefix + n for n in names]


def imports_closure(module, seen=None):
    seen = seen if seen is not None else set()
    if module in seen:
        return seen
    p = module_path(module)
    if not os.path.exists(p):
        return seen
    seen.add(module)
    for m in re.findall(r"^import\s+(\S+)", open(p).read(), re.M):
        if m.startswith("MW"):
            imports_closure(m, seen)
    return seen


def scan_forbidden(modules):
    hits = []
    for m in sorted(modules):
        src = strip_comments(open(module_path(m)).read())
        for ln, line in enumerate(src.split("\n"), 1):
            if FORBIDDEN.search(line):
                hits.append("%s:%d: %s" % (m, ln, line.strip()[:120]))
    return hits


def lake_build(targets, timeout=3000):
    t = time.time()
    with Lock("lake"):
        p = subprocess.run(["lake", "build"] + targets, cwd=LEAN, capture_output=True, text=True, timeout=timeout)
    return p.returncode, (p.stdout + p.stderr), time.time() - t


def failing_decls(build_output):
    """names of declarations whose proof no longer checks, from lake's error lines"""
    errs = []
    for m in re.finditer(r"error: (\S+?\.lean):(\d+):(\d+): (.*)", build_output):
        errs.append({"file": m.group(1), "line": int(m.group(2)), "msg": m.group(4)[:300]})
    return errs


def decl_at(path, line):
    """the theorem/def enclosing a line of a Lean file"""
    try:
        lines = open(os.path.join(LEAN, path)).read().split("\n")
    except OSError:
        return None
    for i in range(min(line, len(lines)) - 1, -1, -1):
        m = re.match(r"^(?:private\s+)?(theorem|def|lemma|example|instance)\s*([A-Za-z_][A-Za-z0-9_'.]*)?", lines[i])
        if m:
            return (m.group(1), m.group(2) or "<example>")
    return None


def audit(module, theorems):
    """`#print axioms` for every theorem; returns {name: [axioms]} and a list of problems"""
    tmp = os.path.join(LEAN, ".audit")
    os.makedirs(tmp, exist_ok=True)
    f = os.path.join(tmp, "Audit_%s.lean" % module.replace(".", "_"))
    with open(f, "w") as fh:
        fh.write("import %s\n" % module)
        for t in theorems:
            fh.write("#print axioms %s\n" % t)
    with Lock("lake"):
        p = subprocess.run(["lake", "env", "lean", f], cwd=LEAN, capture_output=True, text=True, timeout=1200)
    out = p.stdout + p.stderr
    res = {}
    problems = []
    for t in theorems:
        m = re.search(r"'%s' depends on axioms: \[(.*?)\]" % re.escape(t), out, re.S)
        if m:
            ax = [a.strip() for a in m.group(1).replace("\n", " ").split(",") if a.strip()]
        elif re.search(r"'%s' does not depend on any axioms" % re.escape(t), out):
            ax = []
        else:
            problems.append("no axiom report for %s" % t)
            continue
        res[t] = ax
        bad = [a for a in ax if a not in ALLOWED_AXIOMS]
        if bad:
            problems.append("%s depends on %s" % (t, bad))
    if p.returncode != 0 and not problems:
        problems.append("audit failed: " + out[-400:])
    return res, problems


def leanchecker(module, timeout=1200):
    with Lock("lake"):
        p = subprocess.run(["lake", "env", "leanchecker", module], cwd=LEAN, capture_output=True, text=True, timeout=timeout)
    return p.returncode, (p.stdout + p.stderr)[-500:]


def leanchecker_many(modules, timeout=2400, workers=8):
    """leanchecker on every module of a list (the property module and everything of the model it imports)"""
    from concurrent.futures import ThreadPoolExecutor

    def one(m):
        p = subprocess.run(["lake", "env", "leanchecker", m], cwd=LEAN, capture_output=True, text=True, timeout=timeout)
        return m, p.returncode, (p.stdout + p.stderr)[-300:]
    with Lock("lake"):
        with ThreadPoolExecutor(workers) as ex:
            res = list(ex.map(one, modules))
    return [(m, out) for m, rc, out in res if rc != 0], len(res)


def check_proofs(module, tier="quick"):
    """returns dict(obligations, discharged, axioms, broken=[...], notes)"""
    t0 = time.time()
    rc, out, _ = lake_build([module])
    thms = theorems_of(module)
    result = {"module": module, "theorems": thms, "obligations": len(thms), "discharged": 0,
              "axioms": {}, "broken": [], "partial": [t for t in thms if t.endswith("_partial")]}
    if rc != 0:
        errs = failing_decls(out)
        names = []
        for e in errs:
            d = decl_at(e["file"], e["line"])
            names.append({"decl": d[1] if d else "?", "file": e["file"], "line": e["line"], "msg": e["msg"]})
        if not names:
            names.append({"decl": "?", "file": "?", "line": 0, "msg": out[-600:]})
        result["broken"] = names
        result["wall_s"] = time.time() - t0
        return result
    hits = scan_forbidden(imports_closure(module))
    if hits:
        result["broken"] = [{"decl": "source-scan", "file": h, "line": 0, "msg": "forbidden construct"} for h in hits]
        result["wall_s"] = time.time() - t0
        return result
    ax, problems = audit(module, thms)
    result["axioms"] = ax
    result["discharged"] = len([t for t in thms if t in ax and all(a in ALLOWED_AXIOMS for a in ax[t])])
    result["broken"] = [{"decl": p, "file": module, "line": 0, "msg": "axiom audit"} for p in problems]
    if tier == "thorough" and not result["broken"]:
        mods = sorted(imports_closure(module))
        bad, n = leanchecker_many(mods)
        result["leanchecker"] = "ok (%d modules: the property module and its import closure inside the model)" % n if not bad else bad
        for m, out in bad:
            result["broken"].append({"decl": "leanchecker", "file": m, "line": 0, "msg": out})
    result["wall_s"] = time.time() - t0
    return result
