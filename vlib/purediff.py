"""Differential runs of the pure helper functions: the real Rust function (harness `pure`) against
the Lean model (driver `pure`) and, where one exists, an independent Python reference."""
import random

from . import bech32
from .procs import Driver, Harness, outcome

U128 = 2 ** 128 - 1
U64 = 2 ** 64 - 1


def gen_u128(r):
    x = r.random()
    if x < 0.15:
        return r.choice([0, 1, 2, 3, 10, 99, 100, 101])
    if x < 0.3:
        return r.choice([U128, U128 - 1, 2 ** 127, 2 ** 64, 2 ** 64 - 1, 2 ** 64 + 1, 10 ** 27, 10 ** 18])
    if x < 0.6:
        return r.randrange(1, 10 ** r.randrange(1, 28))
    return r.randrange(0, 2 ** r.randrange(1, 129))


def gen_ratio_triple(r):
    """(N, L, a) with rounding-boundary bias: a*L close to a multiple of N"""
    n, l = gen_u128(r), gen_u128(r)
    x = r.random()
    if x < 0.3 and l > 0 and n > 0:
        k = r.randrange(0, 1000)
        a = (k * n + r.choice([-1, 0, 1])) // max(l, 1)
        a = max(0, min(a, U128))
    else:
        a = gen_u128(r)
    return n, l, a


def mutate_addr(r, a):
    x = r.random()
    if x < 0.2:
        return a.upper()
    if x < 0.35:
        i = r.randrange(len(a))
        return a[:i] + r.choice("qpzry9x8gf2tvdw0s3jn54khce6mua7lbio1AB -é") + a[i + 1:]
    if x < 0.45:
        return a[:r.randrange(len(a))]
    if x < 0.55:
        return a[:5].upper() + a[5:]
    if x < 0.6:
        return a + "q"
    if x < 0.65:
        return ""
    return a


def gen_prefix(r):
    x = r.random()
    if x < 0.5:
        return r.choice(["osmo", "celestia", "celestiavaloper", "cosmos", "init", "a", "x" * 83])
    if x < 0.6:
        return r.choice(["", "x" * 84, "OSMO", "Osmo", "os mo", "osmö", "o\x7f", "1", "a1b", "A1B", "~!", "é"])
    n = r.randrange(1, 12)
    return "".join(r.choice("abcxyz019ABC!~ \x7fé1") for _ in range(n))


def gen_address(r):
    pref = r.choice(["osmo", "celestia", "celestiavaloper", "a1b", "OSMO"]) if r.random() < 0.8 else gen_prefix(r)
    n = r.choice([20, 20, 32, 1, 0, 33, 64])
    try:
        a = bech32.encode(pref.lower() if pref.isascii() else "x", bytes(r.randrange(256) for _ in range(n)),
                          const=r.choice([1, 1, 1, 1, 0x2BC830A3, 7]))
    except Exception:
        a = "osmo1xyz"
    if r.random() < 0.35:
        a = mutate_addr(r, a)
    if r.random() < 0.08:
        # a multi-byte character straddling the byte offset where the prefix ends (byte-indexed slicing of the input)
        k = len(pref.encode())
        j = max(0, k - r.choice([1, 1, 2]))
        a = a[:j] + r.choice(["€", "é", "𝔞"]) + a[j + 1:]
    return a, pref


def gen_channel(r):
    x = r.random()
    if x < 0.4:
        return "channel-%d" % r.choice([0, 1, 7, 123, 2 ** 64 - 1, 2 ** 64, 10 ** 30])
    return r.choice(["channel-", "channel-+5", "channel--5", "channel-007", "channel- 5", "channel-5 ", "Channel-5",
                     "channel-5/x", "channel-٣", "channel-0x5", "channel-5e3", "chan-5", "", "channel-+", "channel-++5",
                     "channel-1_000", "channel-5\n", "channel/5", "channel-18446744073709551615",
                     "channel-18446744073709551616", "channel-00000000000000000000000001"])


def gen_denom(r):
    x = r.random()
    if x < 0.3:
        return r.choice(["stTIA", "utia", "abc", "abcd", "ab", "", "stTIA1", "st-tia", "stTIé", "ABCD", "a b c d"])
    n = r.randrange(0, 8)
    return "".join(r.choice("abcXYZ019-_é ") for _ in range(n))


def gen_ibc_denom(r):
    hexs = "0123456789ABCDEF"
    x = r.random()
    n = r.choice([64, 64, 64, 63, 65, 0, 32])
    body = "".join(r.choice(hexs) for _ in range(n))
    if x < 0.15:
        body = body[:-1] + "é" if body else "é"
    pref = r.choice(["ibc/", "ibc/", "ibc/", "IBC/", "ibc", "", "ibc//"])
    return pref + body


CASES = {
    "compute_mint_amount": lambda r: [str(x) for x in gen_ratio_triple(r)],
    "compute_unbond_amount": lambda r: [str(x) for x in gen_ratio_triple(r)],
    "multiply_ratio": lambda r: [str(gen_u128(r)), str(gen_u128(r)), str(gen_u128(r))],
    "decimal_from_ratio": lambda r: [str(gen_u128(r)), str(r.choice([0, 1]) if r.random() < 0.05 else gen_u128(r))],
    "validate_address_prefix": lambda r: [gen_prefix(r)],
    "validate_address": lambda r: list(gen_address(r)),
    "treasury_validate_address": lambda r: list(gen_address(r)),
    "validate_denom": lambda r: [gen_denom(r)],
    "validate_ibc_denom": lambda r: [gen_ibc_denom(r)],
    "derive_intermediate_sender": lambda r: [gen_channel(r) if r.random() < 0.3 else "channel-%d" % r.randrange(10 ** 6),
                                             gen_address(r)[0], gen_prefix(r) if r.random() < 0.4 else r.choice(["osmo", "init", "celestia"])],
}


def gen_addresses(r):
    pref = r.choice(["osmo", "celestia"])
    k = r.randrange(0, 5)
    pool = [bech32.addr(pref, "p%d" % i) for i in range(4)]
    l = [r.choice(pool) for _ in range(k)]
    if r.random() < 0.3 and l:
        i = r.randrange(len(l))
        l[i] = mutate_addr(r, l[i])
    return [l, pref]


CASES["validate_addresses"] = gen_addresses
CASES["channel_ok"] = lambda r: [gen_channel(r)]


def same(a, b):
    oa, ob = outcome(a), outcome(b)
    if oa != ob:
        return False
    if oa == "ok":
        return a["ok"] == b["ok"]
    return True


def reference(fn, args):
    """independent Python opinion where one is available (None = no opinion)"""
    if fn == "derive_intermediate_sender":
        ch, s, p = args
        bs = p.encode()
        ok = 1 <= len(bs) <= 83 and all(33 <= b <= 126 for b in bs) and not (any(97 <= b <= 122 for b in bs) and any(65 <= b <= 90 for b in bs))
        if not ok:
            return {"err": {}}
        return {"ok": bech32.hook_account(ch, s, p.lower())}
    if fn == "channel_ok":
        import re
        m = re.fullmatch(r"channel-([0-9]+)", args[0])
        return {"ok": bool(m) and int(m.group(1)) <= U64}
    if fn == "compute_mint_amount":
        n, l, a = map(int, args)
        v = a if n == 0 else l * a // n
        return {"ok": str(v)} if v <= U128 else {"panic": ""}
    if fn == "compute_unbond_amount":
        n, l, b = map(int, args)
        if b == 0:
            return {"ok": "0"}
        if l == 0:
            return {"panic": ""}
        v = n * b // l
        return {"ok": str(v)} if v <= U128 else {"panic": ""}
    return None


def run(fns, n, seed, build="osmosis"):
    r = random.Random(seed)
    h = Harness(build)
    d = Driver()
    stats = {"evaluations": 0, "by_fn": {}, "outcomes": {}, "distinct": set(), "samples": []}
    divs = []
    try:
        for i in range(n):
            fn = fns[i % len(fns)]
            args = CASES[fn](r)
            req = {"op": "pure", "fn": fn, "args": args}
            a = h.call(req)
            b = d.call(req)
            stats["evaluations"] += 1
            stats["by_fn"][fn] = stats["by_fn"].get(fn, 0) + 1
            k = "%s:%s" % (fn, outcome(a))
            stats["outcomes"][k] = stats["outcomes"].get(k, 0) + 1
            stats["distinct"].add((fn, json_key(args)))
            if len(stats["samples"]) < 4 and i % 7 == 0:
                stats["samples"].append({"fn": fn, "args": args, "impl": a, "model": b})
            if "bad" in a and str(a["bad"]).startswith("missing helper"):
                # the helper no longer exists under that name in /repo (renamed / moved / removed): this one
                # correspondence is not checked; reported once, with no input
                if not any(x.get("fn") == fn and x.get("missing") for x in divs):
                    divs.append({"kind": "pure", "fn": fn, "missing": True, "args": args, "impl": a, "model": b,
                                 "what": "the helper %s is not found under its name in /repo: its correspondence with the model is not checked" % fn})
                continue
            if "bad" in a or "bad" in b:
                raise RuntimeError("pure call rejected: %r %r %r" % (req, a, b))
            ref = reference(fn, args)
            if not same(a, b):
                divs.append({"kind": "model-vs-impl", "fn": fn, "args": args, "impl": a, "model": b})
            elif ref is not None and not same(a, ref):
                divs.append({"kind": "impl-vs-reference", "fn": fn, "args": args, "impl": a, "reference": ref})
            if len(divs) >= 5:
                break
    finally:
        h.close()
        d.close()
    stats["distinct"] = len(stats["distinct"])
    return stats, divs


def json_key(x):
    import json
    return json.dumps(x, sort_keys=True)
