"""Implementation-led simulation: a Python rendering of the chain model (same clauses as
MW/Chain/World.lean) that executes the messages the *real* contract returned.  The contract
model is not consulted.  Used to search for concrete failing inputs (monitors) and as a
second opinion that does not depend on the Lean model of the contract."""
import base64

from . import bech32
from .procs import canon_msgs, outcome


# ---- minimal protobuf reader (independent of prost and of the Lean encoder) ----
def read_varint(b, i):
    shift = 0
    val = 0
    while True:
        if i >= len(b):
            raise ValueError("truncated varint")
        c = b[i]
        i += 1
        val |= (c & 0x7F) << shift
        if c < 0x80:
            return val, i
        shift += 7
        if shift > 70:
            raise ValueError("varint too long")


def read_fields(b):
    """-> list of (field_no, wire_type, value) ; value = int or bytes"""
    i = 0
    out = []
    while i < len(b):
        key, i = read_varint(b, i)
        f, wt = key >> 3, key & 7
        if f == 0:
            raise ValueError("field number 0")
        if wt == 0:
            v, i = read_varint(b, i)
        elif wt == 2:
            n, i = read_varint(b, i)
            if i + n > len(b):
                raise ValueError("truncated field")
            v = bytes(b[i:i + n])
            i += n
        elif wt == 1:
            v = bytes(b[i:i + 8])
            i += 8
        elif wt == 5:
            v = bytes(b[i:i + 4])
            i += 4
        else:
            raise ValueError("wire type %d" % wt)
        out.append((f, wt, v))
    return out


def fields_dict(b):
    d = {}
    for f, wt, v in read_fields(b):
        d.setdefault(f, []).append(v)
    return d


def s(d, f):
    return d.get(f, [b""])[-1].decode("utf-8")


def coin_of(b):
    d = fields_dict(b)
    return {"denom": s(d, 1), "amount": int(s(d, 2) or "0")}


def decode_stargate(type_url, value_hex):
    """decoded form of the stargate messages the contracts emit"""
    b = bytes.fromhex(value_hex)
    d = fields_dict(b)
    t = type_url
    if t in ("/osmosis.tokenfactory.v1beta1.MsgCreateDenom", "/miniwasm.tokenfactory.v1.MsgCreateDenom"):
        return {"k": "create_denom", "sender": s(d, 1), "sub": s(d, 2), "url": t}
    if t in ("/osmosis.tokenfactory.v1beta1.MsgMint", "/miniwasm.tokenfactory.v1.MsgMint"):
        return {"k": "mint", "sender": s(d, 1), "coin": coin_of(d.get(2, [b""])[-1]), "to": s(d, 3), "url": t}
    if t == "/osmosis.tokenfactory.v1beta1.MsgBurn":
        return {"k": "burn", "sender": s(d, 1), "coin": coin_of(d.get(2, [b""])[-1]), "from": s(d, 3), "url": t}
    if t == "/miniwasm.tokenfactory.v1.MsgBurn":
        return {"k": "burn", "sender": s(d, 1), "coin": coin_of(d.get(2, [b""])[-1]), "from": s(d, 1), "url": t}
    if t == "/cosmos.bank.v1beta1.MsgSend":
        return {"k": "send", "from": s(d, 1), "to": s(d, 2), "coins": [coin_of(x) for x in d.get(3, [])]}
    if t == "/cosmwasm.wasm.v1.MsgExecuteContract":
        return {"k": "wasm", "sender": s(d, 1), "contract": s(d, 2), "msg": d.get(3, [b""])[-1].decode("utf-8"),
                "funds": [coin_of(x) for x in d.get(5, [])]}
    if t == "/ibc.applications.transfer.v1.MsgTransfer":
        return {"k": "transfer", "port": s(d, 1), "channel": s(d, 2), "coin": coin_of(d.get(3, [b""])[-1]),
                "sender": s(d, 4), "receiver": s(d, 5), "timeout_height": d.get(6), "timeout": d.get(7, [0])[-1],
                "memo": s(d, 8)}
    if t == "/osmosis.poolmanager.v1beta1.MsgSwapExactAmountIn":
        routes = []
        for x in d.get(2, []):
            rd = fields_dict(x)
            routes.append({"pool_id": rd.get(1, [0])[-1], "denom": s(rd, 2)})
        return {"k": "swap_in", "sender": s(d, 1), "routes": routes, "token_in": coin_of(d.get(3, [b""])[-1]),
                "min_out": s(d, 4)}
    if t == "/osmosis.poolmanager.v1beta1.MsgSwapExactAmountOut":
        routes = []
        for x in d.get(2, []):
            rd = fields_dict(x)
            routes.append({"pool_id": rd.get(1, [0])[-1], "denom": s(rd, 2)})
        return {"k": "swap_out", "sender": s(d, 1), "routes": routes, "max_in": s(d, 3),
                "token_out": coin_of(d.get(4, [b""])[-1])}
    return {"k": "unknown", "type_url": t}


def decode_msg(m):
    if m["kind"] == "stargate":
        try:
            x = decode_stargate(m["type_url"], m["value"])
        except (ValueError, UnicodeDecodeError) as e:
            # not protobuf at all: no chain module can decode it (the transaction fails when it is dispatched)
            x = {"k": "undecodable", "type_url": m["type_url"], "hex": m["value"][:200], "error": str(e)}
    elif m["kind"] == "bank_send":
        x = {"k": "bank_send", "to": m["to"], "coins": [{"denom": c["denom"], "amount": int(c["amount"])} for c in m["amount"]]}
    else:
        x = {"k": "unknown"}
    x["id"] = m["id"]
    x["reply_on"] = m["reply_on"]
    return x


class Ledger:
    def __init__(self):
        self.bal = {}
        self.supply = {}
        self.remote = {}
        self.pkts = []
        self.next_seq = 1

    def clone(self):
        l = Ledger()
        l.bal = dict(self.bal)
        l.supply = dict(self.supply)
        l.remote = dict(self.remote)
        l.pkts = [dict(p) for p in self.pkts]
        l.next_seq = self.next_seq
        return l

    def get(self, a, d):
        return self.bal.get((a, d), 0)

    def add(self, a, d, n):
        self.bal[(a, d)] = self.get(a, d) + n

    def sub(self, a, d, n):
        self.bal[(a, d)] = self.get(a, d) - n

    def move(self, src, dst, coins):
        for c in coins:
            amt = int(c["amount"])
            if amt == 0 or self.get(src, c["denom"]) < amt:
                return False
            self.sub(src, c["denom"], amt)
            self.add(dst, c["denom"], amt)
        return True


class ImplWorld:
    """the chain around the real contract"""

    def __init__(self, harness, self_addr, chain_prefix, time_ns, height, first_seq=1):
        self.h = harness
        self.self = self_addr
        self.chain_prefix = chain_prefix
        self.time = time_ns
        self.height = height
        self.l = Ledger()
        self.l.next_seq = first_seq
        self.ghost_log = []       # decoded messages of committed transactions, in order

    def _sync_bal(self, l):
        """the contract's querier shows the chain's bank ledger (a handler that asks for its own balance gets
        the balance the chain would report at that point of the transaction)"""
        coins = [{"denom": d, "amount": str(n)} for (a, d), n in sorted(l.bal.items()) if a == self.self and n > 0]
        self.h.call({"op": "bal", "addr": self.self, "coins": coins})

    def _exec_one(self, l, x, faults, counters):
        """execute one decoded message against the ledger `l` (all or nothing); -> (ok, reply payload on success)"""
        k = x["k"]
        blocked = faults.get("blocked", [])
        if k == "create_denom":
            return x["sender"] == self.self, {"ok_nodata": True}
        if k == "mint":
            amt = x["coin"]["amount"]
            if x["sender"] != self.self or amt == 0:
                return False, None
            l.supply[x["coin"]["denom"]] = l.supply.get(x["coin"]["denom"], 0) + amt
            l.add(x["to"], x["coin"]["denom"], amt)
            return True, {"ok_nodata": True}
        if k == "burn":
            amt = x["coin"]["amount"]
            if x["sender"] != self.self or amt == 0 or l.get(x["from"], x["coin"]["denom"]) < amt \
                    or l.supply.get(x["coin"]["denom"], 0) < amt:
                return False, None
            l.supply[x["coin"]["denom"]] = l.supply.get(x["coin"]["denom"], 0) - amt
            l.sub(x["from"], x["coin"]["denom"], amt)
            return True, {"ok_nodata": True}
        if k in ("bank_send", "send"):
            if k == "send" and x["from"] != self.self:
                return False, None
            if not x["coins"] or x["to"] in blocked:
                return False, None
            trial = l.clone()
            if not trial.move(self.self, x["to"], x["coins"]):
                return False, None
            l.bal = trial.bal
            return True, {"ok_nodata": True}
        if k == "wasm":
            return (x["sender"] == self.self and not faults.get("fail_oracle")), {"ok_nodata": True}
        if k == "transfer":
            idx = counters["transfers"]
            counters["transfers"] += 1
            c = x["coin"]
            ok = (x["sender"] == self.self and c["amount"] > 0 and l.get(self.self, c["denom"]) >= c["amount"]
                  and idx not in faults.get("fail_transfer", []))
            if not ok:
                return False, None
            seq = l.next_seq
            l.sub(self.self, c["denom"], c["amount"])
            l.next_seq = seq + 1
            l.pkts.append({"seq": seq, "channel": x["channel"], "sender": x["sender"], "receiver": x["receiver"],
                           "coin": {"denom": c["denom"], "amount": str(c["amount"])}, "state": "pending"})
            return True, {"ok": seq}
        if k in ("swap_in", "swap_out"):
            return True, {"ok_nodata": True}
        return False, None

    def _dispatch(self, l, msgs, faults, calls, decoded_log):
        """CosmWasm dispatch of a response: messages in order; a sub-message with `reply_on` success / always gets
        `reply(id, ok data)` after it succeeded, one with `reply_on` error / always gets `reply(id, err)` after it failed
        (its own effects discarded) and the transaction goes on if that reply succeeds; any other failure, and a failing
        reply, fail the transaction"""
        counters = {"transfers": 0}
        for m in msgs:
            x = decode_msg(m)
            decoded_log.append(x)
            ro = x.get("reply_on") or "never"
            ok, data = self._exec_one(l, x, faults, counters)
            if ok:
                if ro in ("always", "success"):
                    self._sync_bal(l)
                    r = self.h.call({"op": "reply", "id": x["id"], "result": data})
                    calls.append({"entry": "reply", "id": x["id"], "result_in": data, "result": r})
                    if outcome(r) != "ok":
                        return False
            else:
                if ro not in ("always", "error"):
                    return False
                err = {"err": "submission failed" if x["k"] == "transfer" else "message failed"}
                self._sync_bal(l)
                r = self.h.call({"op": "reply", "id": x["id"], "result": err})
                calls.append({"entry": "reply", "id": x["id"], "result_in": err, "result": r})
                if outcome(r) != "ok":
                    return False
        return True

    def run_exec(self, sender, funds, msg, faults, tx_index=0, entry="execute"):
        faults = faults or {}
        calls = []
        l = self.l.clone()
        if funds and not l.move(sender, self.self, funds):
            return {"committed": False, "calls": [], "decoded": []}
        self.h.env(self.time, self.height, tx_index)
        self.h.call({"op": "snap"})
        self._sync_bal(l)
        r = self.h.call({"op": entry, "sender": sender, "funds": funds, "msg": msg})
        calls.append({"entry": entry, "sender": sender, "funds": funds, "msg": msg, "result": r})
        decoded = []
        if outcome(r) != "ok":
            self.h.call({"op": "rollback"})
            return {"committed": False, "calls": calls, "decoded": []}
        ok = self._dispatch(l, canon_msgs(r["ok"]), faults, calls, decoded)
        if ok:
            self.h.call({"op": "commit"})
            self.l = l
            self.ghost_log.append({"sender": sender, "funds": funds, "msg": msg, "decoded": decoded})
            return {"committed": True, "calls": calls, "decoded": decoded}
        self.h.call({"op": "rollback"})
        return {"committed": False, "calls": calls, "decoded": decoded}

    def _sudo(self, msg):
        self.h.env(self.time, self.height, 0)
        self._sync_bal(self.l)
        r = self.h.call({"op": "sudo", "msg": msg})
        return [{"entry": "sudo", "msg": msg, "result": r}]

    def event(self, ev):
        k = ev["ev"]
        l = self.l
        if k == "advance":
            self.time += int(ev["dt"])
            self.height += int(ev.get("dh", 0))
            return {"committed": True, "calls": [], "decoded": []}
        if k == "exec":
            return self.run_exec(ev["sender"], ev.get("funds", []), ev["msg"], ev.get("faults"), ev.get("tx", 0))
        if k == "hook":
            acct = bech32.hook_account(ev["channel"], ev["native_sender"], self.chain_prefix)
            amt = int(ev["coin"]["amount"])
            if amt == 0:
                return {"committed": False, "calls": [], "decoded": []}
            l.add(acct, ev["coin"]["denom"], amt)
            r = self.run_exec(acct, [ev["coin"]], ev["msg"], ev.get("faults"))
            if not r["committed"]:
                self.l.sub(acct, ev["coin"]["denom"], amt)
            return r
        if k in ("ack", "timeout"):
            p = next((p for p in l.pkts if p["seq"] == ev["seq"] and p["state"] == "pending"), None)
            if p is None:
                return {"committed": False, "calls": [], "decoded": []}
            amt = int(p["coin"]["amount"])
            # as in MW/Chain/World.lean (`setPktState`): the state is written to every packet carrying that sequence
            # number -- they are one packet unless the environment re-used numbers (`reseq`, outside the honest
            # environment; the model does not key packets by (channel, sequence))
            twins = [q for q in l.pkts if q["seq"] == p["seq"]]
            if k == "ack" and ev["success"]:
                for q in twins:
                    q["state"] = "delivered"
                key = (p["receiver"], p["coin"]["denom"])
                l.remote[key] = l.remote.get(key, 0) + amt
            else:
                for q in twins:
                    q["state"] = "refunded"
                l.add(p["sender"], p["coin"]["denom"], amt)
            if k == "ack":
                msg = {"ibc_lifecycle_complete": {"ibc_ack": {"channel": p["channel"], "sequence": p["seq"], "ack": "", "success": ev["success"]}}}
            else:
                msg = {"ibc_lifecycle_complete": {"ibc_timeout": {"channel": p["channel"], "sequence": p["seq"]}}}
            return {"committed": True, "calls": self._sudo(msg), "decoded": []}
        if k == "stray_ack":
            msg = {"ibc_lifecycle_complete": {"ibc_ack": {"channel": ev["channel"], "sequence": ev["seq"], "ack": "", "success": ev["success"]}}}
            return {"committed": True, "calls": self._sudo(msg), "decoded": []}
        if k == "stray_timeout":
            msg = {"ibc_lifecycle_complete": {"ibc_timeout": {"channel": ev["channel"], "sequence": ev["seq"]}}}
            return {"committed": True, "calls": self._sudo(msg), "decoded": []}
        if k == "donate":
            ok = l.move(ev["sender"], self.self, [ev["coin"]])
            return {"committed": ok, "calls": [], "decoded": []}
        if k == "faucet":
            l.add(ev["to"], ev["coin"]["denom"], int(ev["coin"]["amount"]))
            return {"committed": True, "calls": [], "decoded": []}
        if k == "reseq":
            # packets are numbered per channel: after a move to another channel the numbering continues wherever that
            # channel's counter stands
            l.next_seq = int(ev["next"])
            return {"committed": True, "calls": [], "decoded": []}
        raise RuntimeError("unknown event " + k)

    def ledger_dump(self, accounts, denoms):
        return {
            "bal": {a: {d: str(self.l.get(a, d)) for d in denoms} for a in accounts},
            "remote": {a: {d: str(self.l.remote.get((a, d), 0)) for d in denoms} for a in accounts},
            "supply": {d: str(self.l.supply.get(d, 0)) for d in denoms},
            "pkts": [dict(p) for p in self.l.pkts],
            "next_seq": self.l.next_seq, "time": str(self.time), "height": self.height,
        }
