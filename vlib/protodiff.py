"""C19/C20 differential: for every message type of packages/initia-proto (schema regenerated from
the sources), random conforming values are encoded to canonical protobuf bytes by an independent
Python encoder driven by the *extracted* schema; prost (the real generated type, through the
harness registry) must decode them and re-encode exactly the same bytes.  A mis-extracted or
mutated tag / kind / label shows up as different bytes or a decode error.  The Lean wire codec is
run on the same bytes."""
import json
import os
import random
import re

from .procs import Driver, Harness

ROOT = os.path.dirname(os.path.dirname(os.path.abspath(__file__)))

EXTERNAL = {
    "prost_types::Any": [{"tag": 1, "kind": "string", "label": "singular", "packed": False},
                         {"tag": 2, "kind": "bytes", "label": "singular", "packed": False}],
    "prost_types::Timestamp": [{"tag": 1, "kind": "int64", "label": "singular", "packed": False},
                               {"tag": 2, "kind": "int32", "label": "singular", "packed": False}],
    "prost_types::Duration": [{"tag": 1, "kind": "int64", "label": "singular", "packed": False},
                              {"tag": 2, "kind": "int32", "label": "singular", "packed": False}],
}


def varint(n):
    n &= (1 << 64) - 1
    out = bytearray()
    while True:
        b = n & 0x7F
        n >>= 7
        if n:
            out.append(b | 0x80)
        else:
            out.append(b)
            return bytes(out)


def key(tag, wt):
    return varint(tag * 8 + wt)


def ld(tag, payload):
    return key(tag, 2) + varint(len(payload)) + payload


class UnknownKind(Exception):
    pass


class Gen:
    def __init__(self, schema, rng, hints=()):
        self.msgs = schema["messages"]
        self.r = rng
        self.hints = list(hints)     # integers named by attributes the schema does not model (e.g. `default = "100"`)

    def fields_of(self, ref):
        if ref in self.msgs:
            return self.msgs[ref]["fields"]
        return EXTERNAL.get(ref)

    def scalar(self, kind):
        r = self.r
        if self.hints and kind in ("uint64", "uint32", "int64", "int32") and r.random() < 0.4:
            return r.choice(self.hints)
        if kind == "string":
            return r.choice(["", "a", "osmo1xyz", "ü", "x" * r.randrange(0, 40)])
        if kind == "bytes":
            return bytes(r.randrange(256) for _ in range(r.choice([0, 1, 3, 32])))
        if kind == "bool":
            return r.choice([0, 1])
        if kind in ("uint64",):
            return r.choice([0, 1, 127, 128, 300, 2 ** 32, 2 ** 63, 2 ** 64 - 1, r.randrange(2 ** 64)])
        if kind == "uint32":
            return r.choice([0, 1, 127, 128, 2 ** 31, 2 ** 32 - 1])
        if kind == "int64":
            return r.choice([0, 1, -1, 127, 128, 2 ** 62, -2 ** 63, 2 ** 63 - 1])
        if kind in ("int32", "enumeration"):
            return r.choice([0, 1, 2, -1, 3, 2 ** 31 - 1, -2 ** 31]) if kind == "int32" else r.choice([0, 1, 2, 3])
        if kind in ("fixed64", "sfixed64", "double"):
            return bytes(r.randrange(256) for _ in range(8))
        if kind in ("fixed32", "sfixed32", "float"):
            return bytes(r.randrange(256) for _ in range(4))
        raise UnknownKind(kind)

    def enc_scalar(self, tag, kind, v, always=False):
        """singular proto3 scalar: omitted when default unless `always` (repeated element / oneof member)"""
        if kind == "string":
            b = v.encode()
            return ld(tag, b) if (b or always) else b""
        if kind == "bytes":
            return ld(tag, v) if (v or always) else b""
        if kind in ("fixed64", "sfixed64", "double"):
            return key(tag, 1) + v if (always or any(v)) else b""
        if kind in ("fixed32", "sfixed32", "float"):
            return key(tag, 5) + v if (always or any(v)) else b""
        return key(tag, 0) + varint(v) if (v != 0 or always) else b""

    def message(self, ref, depth):
        fields = self.fields_of(ref)
        if fields is None:
            return None
        out = b""
        oneofs_done = set()
        # oneof: choose at most one member per group
        groups = {}
        for f in fields:
            if f["label"] == "oneof":
                groups.setdefault(f.get("oneof", "?"), []).append(f)
        chosen = {g: (self.r.choice(ms) if self.r.random() < 0.7 else None) for g, ms in groups.items()}
        for f in sorted(fields, key=lambda x: x["tag"]):
            tag, kind, label = f["tag"], f["kind"], f["label"]
            if label == "oneof":
                c = chosen[f.get("oneof", "?")]
                if c is None or c["tag"] != tag:
                    continue
                if kind == "message":
                    body = self.message(f["ref"], depth + 1) if depth < 3 else (b"" if self.fields_of(f["ref"]) is not None else None)
                    if body is None:
                        continue
                    out += ld(tag, body)
                else:
                    out += self.enc_scalar(tag, kind, self.scalar(kind), always=True)
                oneofs_done.add(f.get("oneof"))
                continue
            if kind == "message":
                if label == "repeated":
                    n = self.r.choice([0, 0, 1, 2]) if depth < 3 else 0
                    for _ in range(n):
                        body = self.message(f["ref"], depth + 1)
                        if body is None:
                            break
                        out += ld(tag, body)
                else:
                    if depth < 3 and self.r.random() < 0.6:
                        body = self.message(f["ref"], depth + 1)
                        if body is not None:
                            out += ld(tag, body)
                continue
            if kind == "map":
                if self.r.random() < 0.5:
                    k = self.scalar(f["map_key"]) or "k"
                    entry = self.enc_scalar(1, f["map_key"], k)
                    if f["map_value"] == "message":
                        body = self.message(f["ref"], depth + 1) if depth < 3 else b""
                        if body is None:
                            continue
                        if body:
                            entry += ld(2, body)
                    else:
                        entry += self.enc_scalar(2, f["map_value"], self.scalar(f["map_value"]))
                    out += ld(tag, entry)
                continue
            if label == "repeated":
                n = self.r.choice([0, 0, 1, 3])
                vals = [self.scalar(kind) for _ in range(n)]
                if not vals:
                    continue
                if f["packed"]:
                    body = b"".join(varint(v) if not isinstance(v, bytes) else v for v in vals)
                    out += ld(tag, body)
                else:
                    for v in vals:
                        out += self.enc_scalar(tag, kind, v, always=True)
                continue
            if label == "optional":
                if self.r.random() < 0.5:
                    out += self.enc_scalar(tag, kind, self.scalar(kind), always=True)
                continue
            out += self.enc_scalar(tag, kind, self.scalar(kind))
        return out


def load_schema():
    return json.load(open(os.path.join(ROOT, ".generated", "schema.json")))


def run(per_type, seed, with_lean=True):
    schema = load_schema()
    rng = random.Random(seed)
    g = Gen(schema, rng)
    h = Harness("miniwasm")
    d = Driver() if with_lean else None
    stats = {"types": 0, "evaluations": 0, "nonempty": 0, "distinct": set(), "samples": [], "lean_wire_roundtrips": 0, "lean_nested_roundtrips": 0, "lean_nested_fields": 0, "lean_nested_skipped": 0,
             "any_checks": 0}
    divs = []
    try:
        n_reg = h.call({"op": "proto", "fn": "count"})["ok"]
        names = schema.get("names") or []
        name_idx = {n: i for i, n in enumerate(names)} if isinstance(names, list) else dict(names)
        compiled = sorted(k for k, m in schema["messages"].items() if m.get("compiled", True))
        ref_names = {k for k, m in (schema.get("reference") or {}).items() if str(m.get("origin", "")).startswith("osmosis-std:")}
        stats["registry_types"] = n_reg
        for k in compiled:
            stats["types"] += 1
            for i in range(per_type):
                try:
                    b = g.message(k, 0) if i else b""
                except UnknownKind as e:
                    divs.append({"kind": "prost-vs-extracted-schema", "type": k, "hex": "", "prost": None,
                                 "what": "the extracted schema of %s has a field kind the wire model does not know (%s)" % (k, e),
                                 "fields": schema["messages"][k]["fields"]})
                    break
                hx = b.hex()
                r = h.call({"op": "proto", "fn": "roundtrip", "type": k, "hex": hx})
                stats["evaluations"] += 1
                if b:
                    stats["nonempty"] += 1
                stats["distinct"].add((k, hx))
                if "bad" in r:
                    divs.append({"kind": "registry", "type": k, "detail": r})
                    break
                if r.get("ok") != hx:
                    divs.append({"kind": "prost-vs-extracted-schema", "type": k, "hex": hx, "prost": r,
                                 "fields": schema["messages"][k]["fields"]})
                    break
                if "to_bytes" in r and r["to_bytes"] != r.get("ok"):
                    divs.append({"kind": "to_bytes-vs-prost", "witness": True, "type": k, "hex": hx, "to_bytes": r["to_bytes"][:200],
                                 "what": "MessageExt::to_bytes of %s returns %s..., prost encodes the same value as %s" % (k, r["to_bytes"][:60], hx[:60])})
                    break
                if d is not None and i < 2:
                    lr = d.call({"op": "wire_roundtrip", "hex": hx})
                    stats["lean_wire_roundtrips"] += 1
                    if lr.get("ok") != hx:
                        divs.append({"kind": "lean-wire-codec", "type": k, "hex": hx, "lean": lr})
                        break
                # the typed, nested Lean codec (the function `msg_roundtrip` is about) against the regenerated
                # schema: must return the same bytes as prost for every message whose nested types are in the table
                if d is not None and i < 4 and k in name_idx:
                    nr = d.call({"op": "nested_roundtrip", "type": name_idx[k], "hex": hx})
                    if "ok" in nr:
                        stats["lean_nested_roundtrips"] += 1
                        stats["lean_nested_fields"] += nr.get("fields", 0)
                        if nr["ok"] != hx:
                            divs.append({"kind": "lean-nested-codec", "type": k, "hex": hx, "lean": nr})
                            break
                    else:
                        stats["lean_nested_skipped"] += 1      # refers to a type outside the table (prost_types::*)
                if len(stats["samples"]) < 3 and len(b) > 20:
                    stats["samples"].append({"type": k, "hex": hx[:200]})
        # "for all messages shared with independently generated bindings equal values yield byte-identical encodings": the
        # two bindings were generated from different releases of the definitions, so "equal values" are values over the
        # fields both declare (same tag; nested messages restricted the same way).  Canonical bytes of such values go
        # through both prost implementations -- packages/initia-proto and osmosis-std -- and must come back unchanged
        refs = schema.get("reference") or {}
        common = {"messages": {}}
        for k in sorted(ref_names):
            if k not in schema["messages"] or not schema["messages"][k].get("compiled", True):
                continue
            rt = {f["tag"]: f for f in refs[k]["fields"]}
            fs = []
            for f in schema["messages"][k]["fields"]:
                g_ = rt.get(f["tag"])
                if g_ is None or (g_["kind"], g_["label"], g_.get("packed")) != (f["kind"], f["label"], f.get("packed")):
                    continue
                if f.get("ref") is not None and f["kind"] in ("message", "map") and f["ref"] not in ref_names and f["ref"] not in EXTERNAL:
                    continue
                fs.append(f)
            common["messages"][k] = {"fields": fs}
        gc = Gen(common, random.Random(seed + 29))
        for k in sorted(common["messages"]):
            for i in range(1, 4):
                try:
                    b = gc.message(k, 0)
                except UnknownKind:
                    break
                if b is None:
                    break
                hx = b.hex()
                r1 = h.call({"op": "proto", "fn": "roundtrip", "type": k, "hex": hx})
                r2 = h.call({"op": "proto", "fn": "ref_roundtrip", "type": k, "hex": hx})
                if "bad" in r1 or "bad" in r2:
                    break
                stats["reference_roundtrips"] = stats.get("reference_roundtrips", 0) + 1
                stats["evaluations"] += 1
                if r1.get("ok") != hx or r2.get("ok") != hx:
                    divs.append({"kind": "initia-vs-reference-bindings", "witness": True, "type": k, "hex": hx, "initia": r1.get("ok", r1), "reference": r2.get("ok", r2),
                                 "what": "a value over the fields %s shares with osmosis-std's binding: bytes %s come back as %s from packages/initia-proto and as %s from osmosis-std" % (
                                     k, hx[:60], str(r1.get("ok", r1))[:60], str(r2.get("ok", r2))[:60])})
                    break
        # search for a failing input that does not depend on the translator: bytes that are canonical
        # under the *pinned* definition (baselines/) of a diverging or changed type, which prost does
        # not return unchanged
        try:
            base = json.load(open(os.path.join(ROOT, "baselines", "initia_proto_schema.json")))
        except OSError:
            base = None
        if base is not None:
            def sig(m):
                return [(f["tag"], f["kind"], f["label"], f.get("packed"), f.get("ref"), f.get("oneof")) for f in m["fields"]]
            suspects = {x["type"] for x in divs if x["kind"] == "prost-vs-extracted-schema"}
            suspects |= {k for k in compiled if k in base["messages"] and sig(base["messages"][k]) != sig(schema["messages"][k])}
            # fields carrying attributes outside the wire model (the table theorem `no_unmodelled_attributes` is broken):
            # the messages that embed them are searched with the integers those attributes name among the values
            hints = []
            odd = set()
            for k in compiled:
                for f in schema["messages"][k]["fields"]:
                    for a in f.get("unmodelled", []):
                        odd.add(k)
                        hints += [int(x) for x in re.findall(r"-?\d+", a)][:4]
            if odd:
                stats["unmodelled_attributes"] = sorted(odd)
                users = {k for k in compiled if any(f.get("ref") in odd for f in schema["messages"][k]["fields"])}
                suspects |= odd | set(sorted(users)[:40])
            gb = Gen(base, random.Random(seed + 17), hints=hints + [0, 1])
            for k in sorted(suspects):
                if k not in base["messages"]:
                    continue
                for i in range(400):
                    b = gb.message(k, 0)
                    r = h.call({"op": "proto", "fn": "roundtrip", "type": k, "hex": b.hex()})
                    stats["evaluations"] += 1
                    if "bad" in r:
                        break
                    if r.get("ok") != b.hex():
                        divs.append({"kind": "prost-vs-pinned-definition", "witness": True, "type": k, "hex": b.hex(), "prost": r,
                                     "what": "bytes canonical under the pinned protobuf definition of %s are not returned by decode-then-encode" % k,
                                     "fields": base["messages"][k]["fields"]})
                        break
        # Any: pack / unpack, and rejection of a foreign URL
        for t in schema.get("type_url_probe", schema["type_urls"]):
            k = t["rust_path"]
            b = g.message(k, 0)
            r = h.call({"op": "proto", "fn": "any", "type": k, "hex": b.hex()})
            stats["any_checks"] += 1
            m = schema["messages"].get(k)
            want = "/" + m["origin"][:-3] + "." + m["name"] if m else None
            u = h.call({"op": "proto", "fn": "type_url", "type": k}).get("ok")
            if t["url"] is not None and u != t["url"]:
                divs.append({"kind": "type_urls.rs-vs-compiled", "type": k, "compiled": u, "parsed": t["url"]})
            if want != u:
                divs.append({"kind": "type_url_not_canonical", "witness": True, "type": k, "url": u, "canonical": want,
                             "what": "the compiled TYPE_URL of %s is %r; the fully-qualified protobuf name gives %r" % (k, u, want)})
            if "ok" not in r or r["ok"]["unpacked"] != b.hex() or r["ok"]["type_url"] != u or r["ok"].get("value", b.hex()) != b.hex():
                divs.append({"kind": "any_roundtrip", "witness": True, "hex": b.hex(), "type": k, "detail": r})
            r2 = h.call({"op": "proto", "fn": "any", "type": k, "hex": b.hex(), "url": (u or "") + "X"})
            if "err" not in r2 or r2["err"]["kind"] != "TypeUrl":
                divs.append({"kind": "any_accepts_foreign_url", "witness": True, "hex": b.hex(), "type": k, "detail": r2})
            # the same with an empty payload (an unset Any / an all-default message) and with the URL of another
            # registered type: a mismatched URL is rejected whatever the payload
            others = [x["rust_path"] for x in schema.get("type_url_probe", schema["type_urls"]) if x["rust_path"] != k]
            foreign = [(u or "") + "X", ""]
            if others:
                ou = h.call({"op": "proto", "fn": "type_url", "type": others[(len(k) + len(divs)) % len(others)]}).get("ok")
                if ou and ou != u:
                    foreign.append(ou)
            for fu in foreign:
                for payload in (b"", b):
                    r3 = h.call({"op": "proto", "fn": "any", "type": k, "hex": payload.hex(), "url": fu})
                    stats["any_checks"] += 1
                    if "err" not in r3 or r3["err"]["kind"] != "TypeUrl":
                        divs.append({"kind": "any_accepts_foreign_url", "witness": True, "hex": payload.hex(), "type": k, "url": fu, "detail": r3,
                                     "what": "%s::from_any accepts an Any with type_url %r and payload %r" % (k, fu, payload.hex()[:40])})
                        break
    finally:
        h.close()
        if d is not None:
            d.close()
    stats["distinct"] = len(stats["distinct"])
    return stats, divs
