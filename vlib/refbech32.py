"""Reference bech32 decoder (BIP-173 / BIP-350 reference code, lightly adapted): accepts either
checksum constant, as the bech32 0.9.1 crate's `decode` does.  Independent of the Lean model."""
from .bech32 import CHARSET, hrp_expand, polymod


def decode_any(bech):
    if not isinstance(bech, str):
        return None
    if any(ord(x) < 33 or ord(x) > 126 for x in bech):
        return None
    if bech.lower() != bech and bech.upper() != bech:
        return None
    bech = bech.lower()
    pos = bech.rfind("1")
    if pos < 1 or pos + 7 > len(bech):
        return None
    if len(bech[:pos]) > 83:
        return None
    if not all(x in CHARSET for x in bech[pos + 1:]):
        return None
    hrp = bech[:pos]
    data = [CHARSET.find(x) for x in bech[pos + 1:]]
    const = polymod(hrp_expand(hrp) + data)
    if const not in (1, 0x2BC830A3):
        return None
    return hrp, data[:-6]
