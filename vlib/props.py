"""Per-property configuration: Lean module with the theorems, generator profile, the handlers and
state groups whose divergence counts against the property (DESIGN.md Appendix B), the pure
functions to compare and the monitors to evaluate on the implementation."""

ALL_VARIANTS = ["liquid_stake", "liquid_unstake", "submit_batch", "withdraw", "add_validator", "remove_validator",
                "transfer_ownership", "accept_ownership", "revoke_ownership_transfer", "update_config",
                "receive_rewards", "receive_unstaked_tokens", "circuit_breaker", "resume_contract",
                "recover_pending_ibc_transfers", "fee_withdraw", "reply", "sudo", "instantiate"]

TRUSTED_BASE = [
    "Lean 4.33 kernel (theorems; axioms limited to propext, Classical.choice, Quot.sound; no native_decide)",
    "correspondence machinery: Rust harness (/verif/harness), Lean driver (JSON glue), Python orchestrator (/verif/vlib)",
    "modelled, not verified: cosmwasm-std Uint128/Decimal/Timestamp, cw-storage-plus Map/IndexedMap, cw-controllers Admin, cw2, cw-utils, bech32, sha2, serde, prost, osmosis-std message types",
    "chain model (MW/Chain/World.lean): CosmWasm message/sub-message/reply/rollback semantics, bank, token factory, ibc-go transfer refunds and callbacks, ibc-hooks delivery",
]

P = {}

# properties whose theorems are stated on the chain model (world-level theorems): every co-simulated event is
# also executed by the real contract inside cw-multi-test's WasmKeeper / BankKeeper and compared with the Lean
# chain model (vlib/mtmirror.py, harness/src/mt.rs)
MT_PROPS = {"C01", "C02", "C03", "C05", "C06", "C07", "C08", "C10", "C11"}
MT_NOTE = ("reference chain: the Lean chain model's transaction / sub-message / reply / rollback and bank clauses are compared on every "
           "co-simulated event with cw-multi-test 0.17 (WasmKeeper, BankKeeper) running the real contract; the routing of Stargate "
           "messages, the packet list and ibc-hooks delivery in that reference chain are this project's own code (harness/src/mt.rs)")


def prop(pid, **kw):
    kw.setdefault("variants", ALL_VARIANTS)
    kw.setdefault("state_keys", [])
    kw.setdefault("pure", [])
    kw.setdefault("weights", {})
    kw.setdefault("profile", {})
    kw.setdefault("monitors", [])
    kw.setdefault("assumptions", [])
    kw.setdefault("kind", "staking")
    if pid in MT_PROPS:
        kw["profile"] = dict(kw["profile"], mt=True)
        kw["trusted_extra"] = kw.get("trusted_extra", []) + [MT_NOTE]
    P[pid] = kw


prop("C04", module="MW.Props.C04", title="exchange-rate fairness",
     variants=["liquid_stake", "submit_batch"], state_keys=["state"],
     pure=["compute_mint_amount", "compute_unbond_amount", "multiply_ratio"],
     weights={"drain": 1.5, "stake": 30, "unstake": 15, "submit": 15, "rewards": 8, "advance": 12},
     monitors=["rate"],
     assumptions=["amounts and totals are 128-bit unsigned integers; results are stated for representable results (the checked operation succeeded)"])

prop("C08", module="MW.Props.C08", title="authorization matrix",
     state_keys=["admin", "config", "state", "pending_owner", "owner_min_time"],
     weights={"unauthorized": 30, "ownership": 8, "breaker": 4, "resume": 4, "fee_withdraw": 4, "validators": 4,
              "update_config": 4, "deliver": 8, "rewards": 8, "withdraw": 8, "recover": 6},
     assumptions=["a failed call persists nothing and dispatches nothing (CosmWasm runtime atomicity, chain model)"])

prop("C10", module="MW.Props.C10", title="circuit breaker",
     variants=["liquid_stake", "liquid_unstake", "submit_batch", "withdraw", "receive_rewards",
               "receive_unstaked_tokens", "circuit_breaker", "resume_contract", "instantiate"],
     state_keys=["config", "state", "batches"],
     weights={"breaker": 10, "resume": 8, "stake": 14, "unstake": 10, "submit": 10, "withdraw": 10, "deliver": 8, "rewards": 8},
     profile={"resume_first": 0.5})

prop("C11", module="MW.Props.C11", title="protocol fee accounting",
     variants=["receive_rewards", "fee_withdraw", "liquid_stake", "update_config"], state_keys=["state"],
     weights={"drain": 1.5, "rewards": 25, "fee_withdraw": 10, "update_config": 8, "stake": 12, "ack": 8, "resume": 4, "breaker": 2},
     pure=["multiply_ratio"])

prop("C15", module="MW.Props.C15", title="oracle rates",
     variants=["liquid_stake", "submit_batch", "withdraw", "receive_rewards", "resume_contract", "update_config"],
     state_keys=["state"], pure=["decimal_from_ratio"],
     weights={"stake": 20, "submit": 10, "withdraw": 10, "rewards": 10, "resume": 6, "update_config": 5},
     assumptions=["Decimal::from_ratio / Display of cosmwasm-std are as modelled (compared on every posted payload and by the pure differential)"])

prop("C12", module="MW.Props.C12", title="two-step seven-day handover (both contracts)",
     variants=["transfer_ownership", "accept_ownership", "revoke_ownership_transfer"],
     state_keys=["admin", "pending_owner", "owner_min_time"], extra=["treasury"],
     weights={"ownership": 40, "advance": 25, "unauthorized": 10, "stake": 4},
     assumptions=["Api::addr_validate is the protocol chain's bech32 check (modelled); block time < 2^63 ns"])

prop("C13", module="MW.Props.C13", title="treasury swaps and spending", skip_staking=True, extra=["treasury"],
     variants=[], state_keys=["config", "admin"], pure=["treasury_validate_address"],
     assumptions=["the treasury hard-codes the prefixes osmo / celestia (as the code does)"])

prop("C05", module="MW.Props.C05", title="pro-rata, at-most-once withdrawal",
     variants=["liquid_unstake", "withdraw", "submit_batch", "receive_unstaked_tokens"],
     state_keys=["requests", "batches"], pure=["multiply_ratio"],
     weights={"unstake": 22, "withdraw": 22, "submit": 10, "deliver": 12, "stake": 14, "advance": 10, "longrun": 0.5, "dust": 1.5},
     profile={"legacy": 0.03})

prop("C06", module="MW.Props.C06", title="batch lifecycle and timing",
     variants=["submit_batch", "receive_unstaked_tokens", "liquid_unstake", "instantiate"],
     state_keys=["batches", "pending"],
     weights={"submit": 22, "deliver": 16, "advance": 22, "unstake": 14, "stake": 10, "update_config": 5, "resume": 5, "breaker": 2},
     profile={"reroute": 0.5},
     assumptions=["block time is whole nanoseconds; deadlines compare whole seconds (env.block.time.seconds())"])

prop("C19", module="MW.Props.C19", title="token-factory messages in both builds",
     builds=["osmosis", "miniwasm"], extra=["crossbuild"],
     variants=["instantiate", "liquid_stake", "submit_batch", "liquid_unstake"], state_keys=["config", "batches", "state", "pending"],
     weights={"stake": 30, "unstake": 14, "submit": 14, "advance": 12},
     quick_histories=60,
     assumptions=["the target chains' token-factory definitions are the hand-pinned ones cited in MW/Props/C19.lean (no .proto sources offline)"],
     trusted_extra=["translator /verif/translator/proto_schema.py (regenerates the binding tables from the sources; cross-validated by the per-type prost differential)"])

prop("C20", module="MW.Props.C20", title="bindings wire-compatible, type URLs canonical",
     skip_staking=True, builds=["miniwasm"], extra=["proto"], variants=[], state_keys=[],
     assumptions=["'the protobuf definition' is represented by independently generated bindings (osmosis-std, prost-types) where they exist and by the pinned baseline /verif/baselines/initia_proto_schema.json elsewhere (no .proto sources offline)",
                  "values of Rust HashMap fields are generated with at most one entry (prost's map iteration order is not deterministic)"],
     level_text="Generic Lean theorems (varint / wire / per-level typed / Any round trips, all sizes) + table theorems decided by kernel evaluation over the schema regenerated from /repo's prost sources on every run (well-formedness, baseline, reference bindings, module tree, type URLs); the translator, the Lean wire codec and the prost attributes are cross-validated by a decode/re-encode differential on every compiled message type",
     technique="Lean 4 theorems over a schema regenerated from the source by a translator (decide +kernel over the whole table) + per-type prost differential",
     trusted_extra=["translator /verif/translator/proto_schema.py + generate.py", "pinned baseline of the initia/miniwasm wire schema"])

prop("C14", module="MW.Props.C14", title="well-formed configuration, sectional updates",
     variants=["instantiate", "update_config", "add_validator", "remove_validator"], state_keys=["config"],
     pure=["validate_address_prefix", "validate_address", "validate_addresses", "validate_denom", "validate_ibc_denom", "channel_ok"],
     weights={"update_config": 35, "validators": 15, "unauthorized": 6, "stake": 8, "resume": 4},
     assumptions=["lengths are UTF-8 bytes (str::len()); 'listed twice' is string equality as in the code; bech32 0.9.1 decode accepts both checksum constants (modelled, compared by the differential)"])

prop("C17", module="MW.Props.C17", title="complete pagination, consistent per-user index",
     variants=[], state_keys=["batches", "requests", "ibc_queue", "reply_queue", "pending"],
     weights={"unstake": 22, "withdraw": 16, "submit": 12, "deliver": 10, "stake": 14, "ack": 8, "timeout": 4, "longrun": 1.2, "update_config": 5, "dust": 1.5},
     profile={"queries": 0.5, "legacy": 0.02},
     assumptions=["the model answers UnstakeRequests by filtering one request list (the specification); the upkeep of the real secondary index is covered differentially"])

prop("C09", module="MW.Props.C09", title="ibc-hooks sender derivation",
     variants=["receive_rewards", "receive_unstaked_tokens", "update_config"], state_keys=["config"],
     pure=["derive_intermediate_sender", "channel_ok", "validate_address_prefix"],
     weights={"deliver": 25, "rewards": 25, "update_config": 14, "unauthorized": 18, "submit": 8, "unstake": 8, "stake": 10, "outage": 0},
     profile={"reroute": 0.6},
     assumptions=["SHA-256 collision resistance (the no-impersonation theorem is a reduction to a collision)",
                  "the specification is osmosis x/ibc-hooks DeriveIntermediateSender + cosmos-sdk address.Hash; an independent Python implementation (hashlib + reference bech32) is compared on every generated triple"])

LEDGER_NOTE = ("the equations about the chain's bank / token-factory / IBC ledgers (N2, L1, L2, F1, P2) are proved on the Lean chain "
               "model for every history that satisfies the honest-environment conditions EvOK (MW/Inv/WorldInv.lean: no transaction "
               "signed by the contract's own address, no stake on behalf of the contract, the operator does not re-route the channel, "
               "re-denominate the staked asset, move the staker address or make the contract its own treasury, no forced recovery, "
               "callbacks only for packets in flight); the same equations are evaluated on every run by the executable monitors on an "
               "independent Python chain and the real contract's answers")

prop("C01", module="MW.Props.C01", title="staked-asset accounting fully backed", builds=["osmosis", "miniwasm"], extra=["migration"],
     variants=["liquid_stake", "receive_rewards", "submit_batch", "recover_pending_ibc_transfers", "reply", "sudo", "resume_contract"],
     state_keys=["state", "batches", "ibc_queue", "raw_totals"],
     weights={"drain": 1.5, "stake": 22, "rewards": 10, "unstake": 10, "submit": 10, "ack": 12, "timeout": 5, "recover": 8, "resume": 3, "deliver": 6},
     quick_histories=80,
     assumptions=["StableRouting and NoForcedResendOfInFlight for the ledger-location part (DESIGN.md §4.4)", LEDGER_NOTE])

prop("C02", module="MW.Props.C02", title="solvency of the contract-held staked asset", extra=["migration"],
     variants=["liquid_stake", "receive_rewards", "receive_unstaked_tokens", "withdraw", "fee_withdraw",
               "recover_pending_ibc_transfers", "reply", "sudo"],
     state_keys=["state", "batches", "requests", "ibc_queue"],
     weights={"drain": 1.5, "withdraw": 20, "deliver": 14, "unstake": 14, "submit": 10, "stake": 14, "rewards": 8, "fee_withdraw": 6, "ack": 8, "timeout": 4, "recover": 6, "donate": 2},
     assumptions=[LEDGER_NOTE])

prop("C03", module="MW.Props.C03", title="LST supply integrity and exact delivery", builds=["osmosis", "miniwasm"],
     variants=["liquid_stake", "liquid_unstake", "submit_batch", "recover_pending_ibc_transfers", "reply", "sudo", "resume_contract"],
     state_keys=["state", "batches", "pending", "ibc_queue"],
     weights={"stake": 30, "unstake": 14, "submit": 12, "ack": 10, "timeout": 8, "recover": 14},
     profile={"equal_prefixes": None}, quick_histories=80,
     assumptions=[LEDGER_NOTE])

prop("C07", module="MW.Props.C07", title="IBC transfers tracked and recovered", extra=["migration"],
     variants=["liquid_stake", "receive_rewards", "recover_pending_ibc_transfers", "reply", "sudo"],
     state_keys=["ibc_queue", "reply_queue", "state"],
     weights={"stake": 22, "rewards": 8, "ack": 18, "timeout": 8, "recover": 16, "stray": 6, "advance": 4},
     assumptions=["reply ids are unique per transaction under EnvTime (time-derived ids)", LEDGER_NOTE])

prop("C18", module="MW.Props.C18", title="version-gated, preserving migrations", skip_staking=True, extra=["migration"],
     variants=[], state_keys=[],
     assumptions=["a migration is one atomic entry-point call (a refused migration persists nothing: runtime atomicity, checked on the raw storage)",
                  "semver build metadata ('+…') is not modelled and never generated",
                  "legacy stores are written in the serde-json-wasm encoding of the legacy layouts (u128 as string)"])

prop("C16", module="MW.Props.C16", title="entry points never panic", extra=["treasury", "migration"],
     state_keys=[], pure_only_panics=True, pure=["validate_address", "validate_addresses", "validate_address_prefix", "validate_denom", "validate_ibc_denom",
                          "channel_ok", "derive_intermediate_sender", "treasury_validate_address", "compute_mint_amount",
                          "compute_unbond_amount"], weights={"stake": 16, "unstake": 10, "submit": 8, "deliver": 7, "rewards": 8, "withdraw": 8, "ack": 8,
                             "timeout": 3, "recover": 6, "update_config": 6, "resume": 4, "garbage": 4, "unauthorized": 6},
     profile={"queries": 0.2, "legacy": 0.02},
     assumptions=["envelope of the property: amounts ≤ 10^27, totals ≤ 10^30, rates within [10^-3, 10^3] before and after the call, block time < 2^63 ns, sender a valid address under the configured prefix, counters below 2^64",
                  "every harness call runs under catch_unwind; allocation failure, stack depth and gas are outside the model"])
