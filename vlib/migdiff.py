"""C18 correspondence: legacy stores are written into the real contract's raw storage, `migrate` is run
on the real contract and on the Lean model, and the result, the rewritten records, the version
record and the untouched rest of the storage are compared.  Monitors (the property on the
implementation's own storage): gate, preservation of every packet, frame."""
import json
import random

from . import bech32
from .cosim import STAKED, Setup
from .procs import Driver, Harness, outcome

NS = 10 ** 9


def u64be(n):
    return n.to_bytes(8, "big")


def map_key(ns, k):
    return (len(ns).to_bytes(2, "big") + ns.encode() + u64be(k)).hex()


def item_key(name):
    return name.encode().hex()


def jhex(v):
    return json.dumps(v, separators=(",", ":")).encode().hex()


STATUSES = ["sent", "ack_failure", "timed_out", "ack_success"]
VERSIONS = ["1.0.0", "0.4.20", "0.4.18", "1.1.0", "1.2.0", "2.0.0", "0.9.9", "1.0.1", "1.1.0-rc.1", "1.0.0-alpha",
            "junk", "1.0", "", "01.0.0", "1.0.0.0", "v1.0.0"]


def old_cfg(su, r, layout):
    c = {"native_token_denom": STAKED, "liquid_stake_token_denom": su.lst, "treasury_address": su.treasury,
         "monitors": r.choice([None, su.monitors, []]), "validators": su.validators[:r.choice([0, 1, 2])],
         "batch_period": r.choice([0, 86400]), "unbonding_period": r.choice([1, 1814400]),
         "protocol_fee_config": {"dao_treasury_fee": str(r.choice([0, 10000]))},
         "multisig_address_config": {"staker_address": su.staker, "reward_collector_address": su.collector},
         "minimum_liquid_stake_amount": str(r.choice([1, 100])), "ibc_channel_id": su.channel,
         "stopped": r.choice([True, False]), "oracle_address": r.choice([None, su.oracle])}
    if layout == "0418":
        c["operators"] = r.choice([None, [su.admin]])
        c["oracle_contract_address"] = r.choice([None, su.oracle])
        c["oracle_contract_address_v2"] = None
    else:
        c["send_fees_to_treasury"] = r.choice([True, False])
    if r.random() < 0.1:
        c["multisig_address_config"]["staker_address"] = r.choice([su.users[0], "bad"])
    return c


def run(n, seed):
    h = Harness("osmosis")
    d = Driver()
    stats = {"cases": 0, "outcomes": {}, "signatures": set(), "samples": [], "packets_migrated": 0}
    divs, findings = [], []
    try:
        for i in range(n):
            sd = seed * 1_000_003 + i
            r = random.Random(sd)
            su = Setup(r, {"equal_prefixes": False, "oracle": True, "treasury": True, "fee": 10000,
                           "batch_period": 86400, "unbonding": 1814400, "channel": "channel-7"})
            h.reset("staking", "osmo", su.contract)
            h.env(1_700_000_000 * NS, 10, 0)
            ri = h.call({"op": "instantiate", "sender": su.admin, "funds": [], "msg": su.instantiate_msg()})
            if outcome(ri) != "ok":
                raise RuntimeError("instantiate failed in migration set-up: %r" % ri)
            path = r.choice(["v100", "v100", "v100", "v0420", "v0418"])
            name = "staking" if r.random() < 0.8 else r.choice(["treasury", "other", "crates.io:staking", "acme:staking", ":staking", "staking:",
                                                                "liquid-staking", "Staking", "staking "])
            exact = {"v100": "1.0.0", "v0420": "0.4.20", "v0418": "0.4.18"}[path]
            ver = exact if r.random() < 0.6 else r.choice(VERSIONS)
            stored = {"contract": name, "version": ver}
            if r.random() < 0.03:
                stored = None
                h.call({"op": "rawset", "key": item_key("contract_info"), "value": ""})
            else:
                h.call({"op": "rawset", "key": item_key("contract_info"), "value": jhex(stored)})
            cfg_now = json.loads(bytes.fromhex(h.call({"op": "rawget", "key": item_key("config")})["ok"]))
            if r.random() < 0.5:
                # a deployment that has been running: totals, retained fees and rewards in the stored state (no migration
                # path reads or writes them)
                st_raw = h.call({"op": "rawget", "key": item_key("state")})["ok"]
                if st_raw:
                    st_ = json.loads(bytes.fromhex(st_raw))
                    st_.update(total_native_token=str(r.choice([0, 10 ** 9])), total_liquid_stake_token=str(r.choice([0, 10 ** 9])),
                               total_fees=str(r.choice([1, 500, 10 ** 6])), total_reward_amount=str(r.choice([0, 7000])))
                    h.call({"op": "rawset", "key": item_key("state"), "value": jhex(st_)})
            li, lw = [], []
            if path == "v100" or r.random() < 0.2:
                # sizes on both sides of the page sizes the contract uses elsewhere (10) and of a large backlog
                ks = sorted(r.sample(range(1, 90), r.choice([0, 1, 2, 3, 5, 7, 9, 10, 11, 12, 21, 22, 23, 34, 60])))
                for k in ks:
                    p = {"sequence": k if r.random() < 0.9 else k + 100, "amount": str(r.choice([1, 700, 10 ** 18, 2 ** 128 - 1])),
                         "status": r.choice(STATUSES)}
                    li.append([k, p])
                    h.call({"op": "rawset", "key": map_key("inflight", k), "value": jhex(p)})
                for k in sorted(r.sample(range(1, 10 ** 6), r.choice([0, 0, 1, 2, 2, 10, 11, 12, 25]))):
                    w = {"amount": str(r.choice([5, 10 ** 9]))}
                    lw.append([k, w])
                    h.call({"op": "rawset", "key": map_key("ibc_waiting_for_reply", k), "value": jhex(w)})
            layout = "cur"
            cfg = cfg_now
            if path in ("v0420", "v0418") and r.random() < 0.9:
                layout = "0420" if path == "v0420" else "0418"
                cfg = old_cfg(su, r, layout)
                h.call({"op": "rawset", "key": item_key("config"), "value": jhex(cfg)})
            if path == "v100":
                msg = {"v1_0_0_to_v1_1_0": {}}
            elif path == "v0418":
                msg = {"v0_4_18_to_v0_4_20": {"send_fees_to_treasury": r.choice([True, False])}}
            else:
                msg = {"v0_4_20_to_v1_0_0": {"native_account_address_prefix": r.choice(["celestia", "celestia", "osmo", "", "CELESTIA"]),
                                             "native_validator_address_prefix": r.choice(["celestiavaloper", "celestiavaloper", "x y"]),
                                             "native_token_denom": r.choice(["utia", "utia", "ab", "u1ia"]),
                                             "protocol_account_address_prefix": r.choice(["osmo", "osmo", "celestia"])}}
                if r.random() < 0.6:
                    msg = {"v0_4_20_to_v1_0_0": {"native_account_address_prefix": "celestia", "native_validator_address_prefix": "celestiavaloper",
                                                 "native_token_denom": "utia", "protocol_account_address_prefix": "osmo"}}
            if r.random() < 0.08:      # message of another path than the store is prepared for
                msg = r.choice([{"v1_0_0_to_v1_1_0": {}}, {"v0_4_18_to_v0_4_20": {"send_fees_to_treasury": True}}])
            before = {k: v for k, v in h.call({"op": "rawdump"})["ok"]}
            rh = h.call({"op": "migrate", "msg": msg})
            rm = d.call({"op": "migrate", "msg": msg, "store": {"version": stored, "layout": layout, "config": cfg,
                                                                  "linflight": li, "lwaiting": lw}})
            after = {k: v for k, v in h.call({"op": "rawdump"})["ok"]}
            stats["cases"] += 1
            oh, om = outcome(rh), outcome(rm["result"])
            key = "%s:%s" % (next(iter(msg)), oh)
            stats["outcomes"][key] = stats["outcomes"].get(key, 0) + 1
            stats["signatures"].add((next(iter(msg)), oh, (rh.get("err") or {}).get("kind"), name == "staking", ver == exact, layout))
            case = {"seed": sd, "stored": stored, "msg": msg, "layout": layout, "linflight": li, "lwaiting": lw}
            if len(stats["samples"]) < 2 and oh == "ok":
                stats["samples"].append(case)
            # the gate, judged on the implementation's own answer: success only from the exact source version of the
            # chosen path, under the same contract name
            want_from = {"v1_0_0_to_v1_1_0": "1.0.0", "v0_4_20_to_v1_0_0": "0.4.20", "v0_4_18_to_v0_4_20": "0.4.18"}[next(iter(msg))]
            if oh == "ok" and (stored is None or stored.get("contract") != "staking" or stored.get("version") != want_from):
                findings.append({"property": "C18", "monitor": "version_gate", "signature": {"path": next(iter(msg))},
                                 "what": "migration %s succeeded from stored contract info %s (the path starts at staking %s)" % (
                                     next(iter(msg)), stored, want_from),
                                 "seed": sd, "events": [case], "event": case})
            if oh != om:
                divs.append({"seed": sd, "channel": "migrate.outcome", "detail": {"case": case, "impl": rh, "model": rm["result"]}, "events": []})
                continue
            if oh != "ok":
                if after != before:
                    findings.append({"property": "C18", "monitor": "refused_noop", "signature": {}, "what": "a refused migration changed the storage",
                                     "seed": sd, "events": [case], "event": case})
                continue
            # ---- successful migration: compare the rewritten records with the model ----
            ms = rm["store"]
            ver_after = json.loads(bytes.fromhex(after[item_key("contract_info")]))
            if ms["version"] != ver_after:
                divs.append({"seed": sd, "channel": "migrate.version", "detail": {"model": ms["version"], "impl": ver_after}, "events": []})
            cfg_after = json.loads(bytes.fromhex(after[item_key("config")]))
            if next(iter(msg)) == "v0_4_20_to_v1_0_0" and layout == "0420":
                # the translation of the fee destination, judged on the implementation alone: the legacy treasury is kept
                # exactly when the legacy flag says fees go to it
                want_t = cfg["treasury_address"] if cfg.get("send_fees_to_treasury") else None
                got_t = cfg_after.get("protocol_fee_config", {}).get("treasury_address")
                if got_t != want_t:
                    findings.append({"property": "C18", "monitor": "v0420_fields", "signature": {"field": "treasury_address"}, "seed": sd,
                                     "events": [case], "event": case,
                                     "what": "0.4.20->1.0.0 with send_fees_to_treasury=%s and treasury %s stores treasury_address %s" % (
                                         cfg.get("send_fees_to_treasury"), cfg.get("treasury_address"), got_t)})
            if path != "v100" and ms["config"] != cfg_after:
                divs.append({"seed": sd, "channel": "migrate.config", "detail": {"model": ms["config"], "impl": cfg_after, "case": case}, "events": []})
            infl_after = sorted((int(k[-16:], 16), json.loads(bytes.fromhex(v))) for k, v in after.items()
                                if k.startswith((len("inflight").to_bytes(2, "big") + b"inflight").hex()))
            wait_after = sorted((int(k[-16:], 16), json.loads(bytes.fromhex(v))) for k, v in after.items()
                                if k.startswith((len("ibc_waiting_for_reply").to_bytes(2, "big") + b"ibc_waiting_for_reply").hex()))
            if next(iter(msg)) == "v1_0_0_to_v1_1_0":
                if [list(x) for x in infl_after] != ms["inflight"] or [list(x) for x in wait_after] != ms["waiting"]:
                    divs.append({"seed": sd, "channel": "migrate.packets", "detail": {"model": [ms["inflight"], ms["waiting"]],
                                                                                       "impl": [infl_after, wait_after]}, "events": []})
                # property on the implementation's own storage
                stats["packets_migrated"] += len(li)
                want = [[k, {"sequence": p["sequence"], "amount": {"denom": cfg_now["protocol_chain_config"]["ibc_token_denom"], "amount": p["amount"]},
                             "receiver": cfg_now["native_chain_config"]["staker_address"], "status": p["status"]}] for k, p in li]
                wantw = [[k, {"amount": {"denom": cfg_now["protocol_chain_config"]["ibc_token_denom"], "amount": w["amount"]},
                              "receiver": cfg_now["native_chain_config"]["staker_address"]}] for k, w in lw]
                if [list(x) for x in infl_after] != want or [list(x) for x in wait_after] != wantw:
                    findings.append({"property": "C18", "monitor": "v110_packets", "signature": {}, "seed": sd, "events": [case], "event": case,
                                     "what": "1.0.0->1.1.0 did not keep every packet with key, sequence, amount and status (+ denom, staker)"})
                q = h.call({"op": "query", "msg": {"ibc_queue": {"start_after": None, "limit": None}}})
                # C01 / C02 / C07 across an upgrade: what was forwarded toward the staker and is still in flight or
                # refundable before the migration is in flight / refundable after it (the totals are untouched, so a
                # lost record is value the reported total no longer has a location for)
                if outcome(q) == "ok":
                    def tally(items):
                        t = {}
                        for st, a in items:
                            t[st] = t.get(st, 0) + a
                        return t
                    tb = tally((p["status"], int(p["amount"])) for _, p in li)
                    ta = tally((x["status"], int(x["amount"]["amount"])) for x in q["ok"]["ibc_queue"])
                    for st in ("sent", "ack_failure", "timed_out"):
                        if tb.get(st, 0) != ta.get(st, 0):
                            for prop_, mon in (("C01", "migration_keeps_forwarded"), ("C07", "migration_keeps_tracked"), ("C02", "migration_keeps_refundable")):
                                if prop_ == "C02" and st == "sent":
                                    continue
                                findings.append({"property": prop_, "monitor": mon, "signature": {"status": st}, "seed": sd, "events": [case], "event": case,
                                                 "what": "1.0.0->1.1.0: packets with status %s held %d before the migration and %d after it" % (st, tb.get(st, 0), ta.get(st, 0))})
                ref_amts = [int(p["amount"]) for _, p in li if p["status"] in ("ack_failure", "timed_out")]
                if sum(ref_amts) < 2 ** 128 and len(ref_amts) <= 200:
                    # "refundable value recoverable before the upgrade is recoverable after it": an unforced recovery right
                    # after the migration re-sends exactly the refundable amounts of the legacy store to the staker
                    from .implworld import decode_msg
                    from .procs import canon_msgs
                    h.call({"op": "snap"})
                    rr = h.call({"op": "execute", "sender": su.users[0], "funds": [],
                                 "msg": {"recover_pending_ibc_transfers": {"paginated": None, "selected_packets": None, "receiver": None}}})
                    h.call({"op": "rollback"})
                    stats["outcomes"]["recover_after_migration:" + outcome(rr)] = stats["outcomes"].get("recover_after_migration:" + outcome(rr), 0) + 1
                    good = None
                    if cfg_now.get("stopped"):
                        good = True       # recovery itself is not gated, but keep the judgement to running contracts
                    elif not ref_amts:
                        good = outcome(rr) == "err"
                    elif outcome(rr) == "ok":
                        tr = [decode_msg(m) for m in canon_msgs(rr["ok"])]
                        tr = [m for m in tr if m.get("k") == "transfer"]
                        good = (len(tr) == 1 and tr[0]["coin"]["amount"] == sum(ref_amts)
                                and tr[0]["coin"]["denom"] == cfg_now["protocol_chain_config"]["ibc_token_denom"]
                                and tr[0]["receiver"] == cfg_now["native_chain_config"]["staker_address"])
                    else:
                        good = False
                    if good is False:
                        for prop_ in ("C18", "C07"):
                            findings.append({"property": prop_, "monitor": "v110_recoverable", "signature": {"n": min(len(ref_amts), 3)}, "seed": sd,
                                             "events": [case], "event": case,
                                             "what": "after 1.0.0->1.1.0 a recovery answers %s; the legacy store held refundable amounts %s for the staker" % (
                                                 json.dumps(rr)[:200], ref_amts[:6])})
                if outcome(q) != "ok" or len(q["ok"]["ibc_queue"]) != len(li):
                    findings.append({"property": "C18", "monitor": "v110_readable", "signature": {}, "seed": sd, "events": [case], "event": case,
                                     "what": "IbcQueue after the migration does not show every packet: %r" % (q,)})
            # gate (on the implementation's own inputs)
            if not (stored and stored["contract"] == "staking" and stored["version"] == {"v1_0_0_to_v1_1_0": "1.0.0", "v0_4_20_to_v1_0_0": "0.4.20",
                                                                                          "v0_4_18_to_v0_4_20": "0.4.18"}[next(iter(msg))]):
                findings.append({"property": "C18", "monitor": "gate", "signature": {}, "seed": sd, "events": [case], "event": case,
                                 "what": "migration succeeded from name/version %r with %s" % (stored, next(iter(msg)))})
            if ver_after != {"contract": "staking", "version": "1.1.0"}:
                findings.append({"property": "C18", "monitor": "version_recorded", "signature": {}, "seed": sd, "events": [case], "event": case,
                                 "what": "new version not recorded: %r" % (ver_after,)})
            # frame: every other key untouched
            touched = {item_key("contract_info"), item_key("config")}
            for k in set(before) | set(after):
                if k in touched or "inflight".encode().hex() in k or "ibc_waiting_for_reply".encode().hex() in k:
                    continue
                if before.get(k) != after.get(k):
                    findings.append({"property": "C18", "monitor": "frame", "signature": {"key": bytes.fromhex(k).decode("latin1")[:20]},
                                     "seed": sd, "events": [case], "event": case, "what": "migration changed unrelated storage key"})
            if next(iter(msg)) != "v0_4_20_to_v1_0_0" and next(iter(msg)) != "v0_4_18_to_v0_4_20" and cfg_after != cfg_now:
                findings.append({"property": "C18", "monitor": "frame", "signature": {"key": "config"}, "seed": sd, "events": [case], "event": case,
                                 "what": "1.1.0 migration changed the configuration"})
        # treasury gate
        for i in range(max(20, n // 5)):
            r = random.Random(seed * 7919 + i)
            su = bech32.addr("osmo", "tadmin")
            h.reset("treasury", "osmo", bech32.addr("osmo", "treasury-contract", 32))
            h.call({"op": "instantiate", "sender": su, "funds": [], "msg": {"admin": None, "trader": None, "allowed_swap_routes": []}})
            stored = {"contract": r.choice(["treasury"] * 4 + ["staking", "crates.io:treasury", ":treasury", "x:treasury", "treasury:", "Treasury"]), "version": r.choice(VERSIONS + ["0.4.19", "0.4.20", "0.4.21", "0.1.0"])}
            h.call({"op": "rawset", "key": item_key("contract_info"), "value": jhex(stored)})
            rh = h.call({"op": "migrate", "msg": {}})
            rm = d.call({"op": "treasury_migrate", "version": stored})
            stats["cases"] += 1
            stats["signatures"].add(("treasury", outcome(rh), stored["contract"], stored["version"]))
            if outcome(rh) == "ok" and stored["contract"] != "treasury":
                case = {"seed": seed * 7919 + i, "contract": "treasury", "stored": stored, "msg": {}}
                findings.append({"property": "C18", "monitor": "version_gate", "signature": {"path": "treasury"},
                                 "what": "the treasury migration succeeded from stored contract info %s (another contract's name)" % (stored,),
                                 "seed": seed * 7919 + i, "events": [case], "event": case})
            if outcome(rh) != outcome(rm["result"]):
                divs.append({"seed": seed, "channel": "migrate.treasury", "detail": {"stored": stored, "impl": rh, "model": rm["result"]}, "events": []})
    finally:
        h.close()
        d.close()
    stats["signatures"] = len(stats["signatures"])
    return stats, divs, findings
