"""Co-simulation of the treasury contract: every call goes to the real contract (harness) and to
the Lean model (driver `tboot` / `texec`); results, emitted messages and the Config query / raw
ownership state are compared, and the C12/C13 monitors are evaluated on the implementation's
answers."""
import random

from . import bech32
from .implworld import decode_msg
from .procs import Driver, Harness, canon_msgs, err_kind, outcome

NS = 10 ** 9
DAY = 86400
T0 = 1_700_000_000 * NS + 5


def coin(d, a):
    return {"denom": d, "amount": str(a)}


class TSetup:
    def __init__(self, r):
        self.contract = bech32.addr("osmo", "treasury-contract", 32)
        self.admin = bech32.addr("osmo", "tadmin")
        self.trader = bech32.addr("osmo", "ttrader")
        self.trader2 = bech32.addr("osmo", "ttrader2")
        self.nominee = bech32.addr("osmo", "tnominee")
        self.nominee2 = bech32.addr("osmo", "tnominee2")
        self.users = [bech32.addr("osmo", "tuser%d" % i) for i in range(3)]
        self.native = [bech32.addr("celestia", "tn%d" % i) for i in range(2)]
        self.denoms = ["uosmo", "ibc/TIA", "factory/x/milk", "uusdc"]
        self.routes = self.gen_routes(r)

    def gen_route(self, r, n=None):
        if n is None:
            n = r.choice([1, 1, 2, 2, 3, 1, 2, 0])      # an allow-list may hold an empty route: nothing validates it
        ds = [r.choice(self.denoms) for _ in range(n + 1)]
        route = [{"pool_id": r.choice([1, 2, 7, 1000, 2 ** 40]), "token_in_denom": ds[i], "token_out_denom": ds[i + 1]} for i in range(n)]
        if n >= 2 and r.random() < 0.3:
            # nothing requires consecutive hops to chain: an allow-listed route may name any denoms per hop
            j = r.randrange(1, n)
            route[j]["token_in_denom"] = r.choice(self.denoms)
        return route

    def gen_routes(self, r):
        return [self.gen_route(r) for _ in range(r.choice([0, 1, 2, 3, 4]))]


def mutate_route(r, su, allowed):
    """candidate routes derived from the allow-list: exact, prefix, suffix, reorder, concat, field edit"""
    if not allowed:
        return su.gen_route(r) if r.random() < 0.7 else []
    base = [dict(h) for h in r.choice(allowed)]
    x = r.random()
    if x < 0.45:
        return base
    if x < 0.55:
        return base[:-1]
    if x < 0.62:
        return base[1:]
    if x < 0.70:
        other = [dict(h) for h in r.choice(allowed)]
        return base + other
    if x < 0.78:
        b = list(base)
        r.shuffle(b)
        return b
    if x < 0.9 and base:
        i = r.randrange(len(base))
        k = r.choice(["pool_id", "token_in_denom", "token_out_denom"])
        base[i][k] = base[i][k] + 1 if k == "pool_id" else r.choice(su.denoms)
        return base
    if x < 0.95:
        return []
    return su.gen_route(r)


def run(n_hist, seed, length):
    h = Harness("osmosis")
    d = Driver()
    stats = {"histories": 0, "calls": 0, "by_variant": {}, "outcomes": {}, "signatures": set(), "samples": []}
    divs, findings = [], []
    try:
        for i in range(n_hist):
            hs = seed * 1_000_003 + i
            r = random.Random(hs)
            su = TSetup(r)
            stats["histories"] += 1
            events = []
            t = T0
            inst = {"admin": r.choice([None, su.admin]), "trader": r.choice([None, su.trader, su.trader]),
                    "allowed_swap_routes": su.routes}
            if r.random() < 0.05:
                inst["admin"] = r.choice(["bad", su.native[0], su.admin.upper()])
            sender0 = su.admin
            h.reset("treasury", "osmo", su.contract)
            h.env(t, 10, 0)
            rh = h.call({"op": "instantiate", "sender": sender0, "funds": [], "msg": inst})
            rm = d.call({"op": "tboot", "self": su.contract, "chain_prefix": "osmo", "sender": sender0,
                         "time": str(t), "height": 10, "msg": inst})
            events.append({"boot": inst, "sender": sender0})
            stats["calls"] += 1
            if outcome(rh) != outcome(rm["result"]):
                divs.append({"seed": hs, "channel": "outcome", "detail": {"call": "instantiate", "impl": rh, "model": rm["result"]}, "events": events})
                continue
            if outcome(rh) != "ok":
                continue
            last_nom = None
            dump = rm["dump"]
            for _ in range(length):
                admin = dump["admin"]
                trader = dump["config"]["ok"]["trader"] if "ok" in dump["config"] else su.trader
                allowed = dump["config"]["ok"]["allowed_swap_routes"] if "ok" in dump["config"] else []
                x = r.random()
                who = r.choice([admin, admin, trader, trader, su.nominee, su.nominee2] + su.users)
                if x < 0.12:
                    step = r.choice([1, 3600, DAY, 7 * DAY])
                    if last_nom is not None and r.random() < 0.6:
                        goal = last_nom + 7 * DAY + r.choice([-1, 0, 0, 1])
                        step = max(1, goal - t // NS)
                    t += step * NS + r.choice([0, 1, 999_999_999])
                    continue
                if x < 0.24:
                    msg = {"transfer_ownership": {"new_owner": r.choice([su.nominee, su.nominee2, su.admin, "junk", su.native[0]])}}
                    who = r.choice([admin, admin, admin, who])
                elif x < 0.30:
                    msg = {"revoke_ownership_transfer": {}}
                    who = r.choice([admin, admin, who])
                elif x < 0.42:
                    msg = {"accept_ownership": {}}
                    who = r.choice([dump["pending_owner"] or su.nominee, su.nominee, su.nominee2, who])
                elif x < 0.56:
                    ch = r.choice([None, None, "channel-1", "channel-99", "", "", " ", "channel-"])
                    rc = r.choice(su.users + su.native + [su.contract, "osmo1bad", su.native[0].upper()])
                    msg = {"spend_funds": {"amount": coin(r.choice(su.denoms), r.choice([0, 1, 10 ** 6, 2 ** 128 - 1])),
                                           "receiver": rc, "channel_id": ch}}
                    who = r.choice([admin, admin, admin, who])
                elif x < 0.74:
                    route = mutate_route(r, su, allowed)
                    den = route[0]["token_in_denom"] if route and r.random() < 0.8 else r.choice(su.denoms)
                    msg = {"swap_exact_amount_in": {"routes": route, "token_in": coin(den, r.choice([1, 5000, 10 ** 20])),
                                                    "token_out_min_amount": str(r.choice([0, 1, 10 ** 9, 2 ** 128 - 1]))}}
                    who = r.choice([trader, trader, trader, who])
                elif x < 0.9:
                    route = mutate_route(r, su, allowed)
                    den = route[-1]["token_out_denom"] if route and r.random() < 0.8 else r.choice(su.denoms)
                    msg = {"swap_exact_amount_out": {"routes": route, "token_out": coin(den, r.choice([1, 5000, 10 ** 20])),
                                                     "token_in_max_amount": str(r.choice([0, 1, 10 ** 9, 2 ** 128 - 1]))}}
                    who = r.choice([trader, trader, trader, who])
                else:
                    msg = {"update_config": {"trader": r.choice([None, su.trader, su.trader2, "bad"]),
                                             "allowed_swap_routes": r.choice([None, None, su.gen_routes(r)])}}
                    who = r.choice([admin, admin, who])
                var = next(iter(msg))
                events.append({"sender": who, "msg": msg, "time": str(t)})
                h.env(t, 10, 0)
                before = h.call({"op": "dump", "users": []})["ok"]
                rh = h.call({"op": "execute", "sender": who, "funds": [], "msg": msg})
                rm = d.call({"op": "texec", "sender": who, "msg": msg, "time": str(t), "height": 10})
                stats["calls"] += 1
                stats["by_variant"][var] = stats["by_variant"].get(var, 0) + 1
                om, oh = outcome(rm["result"]), outcome(rh)
                k = "%s:%s" % (var, oh)
                stats["outcomes"][k] = stats["outcomes"].get(k, 0) + 1
                stats["signatures"].add((var, oh, err_kind(rh)))
                if len(stats["samples"]) < 3 and oh == "ok":
                    stats["samples"].append({"sender": who, "msg": msg})
                after = h.call({"op": "dump", "users": []})["ok"]
                # the monitors judge the implementation's own answers, whether or not the model agrees
                fs = monitor(su, who, msg, rh, before, after, t, last_nom)
                for f in fs:
                    f.update(seed=hs, events=list(events))
                findings += fs
                if om != oh:
                    divs.append({"seed": hs, "channel": "outcome", "detail": {"msg": msg, "impl": rh, "model": rm["result"]}, "events": list(events)})
                    break
                if oh == "ok":
                    mh = canon_msgs(rh["ok"])
                    if mh != rm["result"]["ok"]["msgs"]:
                        divs.append({"seed": hs, "channel": "msgs", "detail": {"msg": msg, "impl": mh, "model": rm["result"]["ok"]["msgs"]}, "events": list(events)})
                        break
                dump = rm["dump"]
                for key in ("config", "admin", "pending_owner", "owner_min_time", "version"):
                    if dump[key] != after[key]:
                        divs.append({"seed": hs, "channel": "state." + key, "detail": {"model": dump[key], "impl": after[key]}, "events": list(events)})
                        break
                else:
                    if oh == "ok" and var == "transfer_ownership":
                        last_nom = t // NS
                        last_nominee = msg[var]["new_owner"]
                        _ = last_nominee
                    if oh == "ok" and var in ("revoke_ownership_transfer", "accept_ownership"):
                        last_nom = None
                    continue
                break
    finally:
        h.close()
        d.close()
    return stats, divs, findings


def monitor(su, who, msg, rh, before, after, t, last_nom):
    """C12 / C13 predicates on the implementation's own answers"""
    out = []
    var = next(iter(msg))
    ok = outcome(rh) == "ok"
    cfgb = before["config"].get("ok")
    if cfgb is None:
        return out

    def rep(prop, mon, sig, what):
        out.append({"property": prop, "monitor": mon, "signature": sig, "what": what, "event": {"sender": who, "msg": msg}})
    admin = before["admin"]
    if outcome(rh) == "panic":
        rep("C16", "no_panic", {"entry": "treasury", "variant": var}, "treasury %s panics: %s" % (var, rh["panic"][:100]))
    if after["admin"] != admin:
        mt = before["owner_min_time"]
        good = (ok and var == "accept_ownership" and who == before["pending_owner"] and after["admin"] == who and mt is not None
                and int(mt) // NS <= t // NS and last_nom is not None and t // NS >= last_nom + 7 * DAY)
        if not good:
            rep("C12", "admin_change", {"variant": var, "contract": "treasury"}, "treasury admin changed outside the protocol")
    if ok and var in ("revoke_ownership_transfer", "accept_ownership") and after["pending_owner"] is not None:
        rep("C12", "nomination_consumed", {"variant": var, "contract": "treasury"}, "nomination survives")
    if ok and var in ("transfer_ownership", "revoke_ownership_transfer", "spend_funds", "update_config") and who != admin:
        rep("C13", "admin_only", {"variant": var}, "%s by non-admin" % var)
    if not ok:
        return out
    msgs = [decode_msg(m) for m in canon_msgs(rh["ok"])]
    if var in ("swap_exact_amount_in", "swap_exact_amount_out"):
        m = msg[var]
        routes = m["routes"]
        problems = []
        if who != cfgb["trader"]:
            problems.append("not the trader")
        if not routes or routes not in cfgb["allowed_swap_routes"]:
            problems.append("route not allow-listed")
        if var.endswith("_in"):
            c = m["token_in"]
            if routes and routes[0]["token_in_denom"] != c["denom"]:
                problems.append("first input denom mismatch")
            want = {"k": "swap_in", "sender": su.contract, "routes": [{"pool_id": h["pool_id"], "denom": h["token_out_denom"]} for h in routes],
                    "token_in": {"denom": c["denom"], "amount": int(c["amount"])}, "min_out": str(int(m["token_out_min_amount"]))}
        else:
            c = m["token_out"]
            if routes and routes[-1]["token_out_denom"] != c["denom"]:
                problems.append("last output denom mismatch")
            want = {"k": "swap_out", "sender": su.contract, "routes": [{"pool_id": h["pool_id"], "denom": h["token_in_denom"]} for h in routes],
                    "token_out": {"denom": c["denom"], "amount": int(c["amount"])}, "max_in": str(int(m["token_in_max_amount"]))}
        got = dict(msgs[0]) if len(msgs) == 1 else {}
        got.pop("id", None), got.pop("reply_on", None)
        if got != want:
            problems.append("emitted swap message differs: %s vs %s" % (got, want))
        if after["config"] != before["config"]:
            problems.append("swap changed the configuration")
        for p in problems:
            rep("C13", "swap_sound", {"variant": var, "problem": p.split(":")[0]}, "swap accepted but " + p)
    if var == "spend_funds":
        from . import refbech32
        m = msg[var]
        dec = refbech32.decode_any(m["receiver"])
        c = {"denom": m["amount"]["denom"], "amount": int(m["amount"]["amount"])}
        if m.get("channel_id") is None:
            good = (dec is not None and dec[0] == "osmo" and len(msgs) == 1 and msgs[0]["k"] == "bank_send"
                    and msgs[0]["to"] == m["receiver"] and msgs[0]["coins"] == [c])
        else:
            good = (dec is not None and dec[0] == "celestia" and len(msgs) == 1 and msgs[0]["k"] == "transfer"
                    and msgs[0]["receiver"] == m["receiver"] and msgs[0]["coin"] == c and msgs[0]["channel"] == m["channel_id"]
                    and msgs[0]["sender"] == su.contract and msgs[0]["port"] == "transfer")
        if not good:
            rep("C13", "spend_sound", {"ibc": m.get("channel_id") is not None}, "spend accepted outside its rules: %s" % msgs)
    if var == "update_config":
        m = msg[var]
        ca, cb = after["config"]["ok"], cfgb
        if (m.get("trader") is None and ca["trader"] != cb["trader"]) or (m.get("trader") is not None and ca["trader"] != m["trader"]) \
                or (m.get("allowed_swap_routes") is None and ca["allowed_swap_routes"] != cb["allowed_swap_routes"]) \
                or (m.get("allowed_swap_routes") is not None and ca["allowed_swap_routes"] != m["allowed_swap_routes"]):
            rep("C13", "update_frame", {}, "update_config changed other than the supplied parts")
    return out
