"""Model-led co-simulation of the staking contract: the Lean driver advances the model world and
prints the entry-point calls the chain made; the same calls are replayed against the real
contract in the Rust harness and every result and every query answer is compared.

All randomness comes from one `random.Random(seed)`.
"""
import copy
import json
import random

from . import bech32
from .implworld import ImplWorld, decode_msg
from .procs import canon_msgs, err_kind, outcome
from .mtmirror import MtMirror, MtMismatch

NS = 10 ** 9
DAY = 86400
STAKED = "ibc/" + "C3E53D20BC7A4CC993B17C7971F8ECD06A433C10B6A96F4C4C3714F0624C56DA"
T0 = 1_700_000_000 * NS + 123_456_789


class Divergence(Exception):
    def __init__(self, channel, detail):
        super().__init__(channel)
        self.channel = channel
        self.detail = detail


class Setup:
    """addresses and the boot configuration of one history"""

    def __init__(self, rng, profile):
        self.chain_prefix = "osmo"
        self.chain_id = rng.choice(["osmosis-1", "osmosis-1", "osmo-test-5", "localosmosis", "celestia", ""])
        self.proto_prefix = "osmo"
        eq = profile.get("equal_prefixes")
        if eq is None:
            eq = rng.random() < 0.12
        self.native_prefix = "osmo" if eq else "celestia"
        self.val_prefix = self.native_prefix + "valoper"
        P, N = self.proto_prefix, self.native_prefix
        self.contract = bech32.addr(P, "contract", 32)
        self.admin = bech32.addr(P, "admin")
        self.nominee = bech32.addr(P, "nominee")
        self.nominee2 = bech32.addr(P, "nominee2")
        self.monitors = [bech32.addr(P, "monitor1"), bech32.addr(P, "monitor2")]
        self.users = [bech32.addr(P, "user%d" % i) for i in range(5)]
        self.contract_like = bech32.addr(P, "othercontract", 32)
        self.oracle = bech32.addr(P, "oracle", 32)
        self.treasury = bech32.addr(P, "treasury", 32)
        self.treasury2 = bech32.addr(P, "treasury2", 32)
        self.staker = bech32.addr(N, "staker")
        self.collector = bech32.addr(N, "collector")
        self.native_users = [bech32.addr(N, "nuser%d" % i) for i in range(3)]
        self.impostor = bech32.addr(N, "impostor")
        self.validators = [bech32.addr(self.val_prefix, "val%d" % i) for i in range(3)]
        self.channel = profile.get("channel", "channel-+5" if rng.random() < 0.03 else "channel-7")
        self.other_channel = "channel-8"
        self.sub = profile.get("sub", rng.choice(["stTIA", "stTIA", "milkTIA", "stkx", "A" * 40]))
        self.lst = "factory/%s/%s" % (self.contract, self.sub)
        self.oracle_on = profile.get("oracle", rng.random() < 0.75)
        self.treasury_on = profile.get("treasury", rng.random() < 0.6)
        self.fee = profile.get("fee", rng.choice([0, 1, 10_000, 10_000, 10_000, 99_999, 100_000, 100_001]))
        if "fee" not in profile and rng.random() < 0.04:
            self.fee = 2 ** 128 - 1
        self.min_stake = rng.choice([1, 100, 1000])
        self.batch_period = profile.get("batch_period", rng.choice([0, 1, 3600, DAY, DAY]))
        self.unbonding = profile.get("unbonding", rng.choice([0, 1, 3 * DAY, 21 * DAY]))
        if "batch_period" not in profile and rng.random() < 0.03:
            self.batch_period = 2 ** 64 - 1
        if "unbonding" not in profile and rng.random() < 0.03:
            self.unbonding = 2 ** 64 - 1

    def hook_staker(self, channel=None, staker=None):
        return bech32.hook_account(channel or self.channel, staker or self.staker, self.chain_prefix)

    def hook_collector(self):
        return bech32.hook_account(self.channel, self.collector, self.chain_prefix)

    def native_cfg(self, **over):
        c = {"account_address_prefix": self.native_prefix, "validator_address_prefix": self.val_prefix,
             "token_denom": "utia", "validators": self.validators[:2], "unbonding_period": self.unbonding,
             "staker_address": self.staker, "reward_collector_address": self.collector}
        c.update(over)
        return c

    def proto_cfg(self, **over):
        c = {"account_address_prefix": self.proto_prefix, "ibc_token_denom": STAKED,
             "ibc_channel_id": self.channel, "minimum_liquid_stake_amount": str(self.min_stake),
             "oracle_address": self.oracle if self.oracle_on else None}
        c.update(over)
        return c

    def fee_cfg(self, **over):
        c = {"dao_treasury_fee": str(self.fee), "treasury_address": self.treasury if self.treasury_on else None}
        c.update(over)
        return c

    def instantiate_msg(self):
        return {"native_chain_config": self.native_cfg(), "protocol_chain_config": self.proto_cfg(),
                "protocol_fee_config": self.fee_cfg(), "liquid_stake_token_denom": self.sub,
                "batch_period": self.batch_period, "monitors": list(self.monitors)}

    def accounts(self):
        return ([self.contract, self.admin, self.nominee, self.nominee2] + self.monitors + self.users
                + [self.contract_like, self.oracle, self.treasury, self.treasury2, self.staker, self.collector]
                + self.native_users + [self.impostor, self.hook_staker(), self.hook_collector()])

    def denoms(self):
        return [STAKED, self.lst]


class Stats:
    def __init__(self):
        self.calls = 0
        self.events = 0
        self.histories = 0
        self.by_event = {}
        self.by_outcome = {}
        self.err_kinds = {}
        self.signatures = set()
        self.configs = {}
        self.kind_mismatch = {}
        self.samples = []
        self.dump_compares = 0

    def bump(self, d, k, n=1):
        d[k] = d.get(k, 0) + n

    def merge(self, o):
        self.calls += o.calls
        self.events += o.events
        self.histories += o.histories
        self.dump_compares += o.dump_compares
        for a, b in ((self.by_event, o.by_event), (self.by_outcome, o.by_outcome), (self.err_kinds, o.err_kinds),
                     (self.configs, o.configs), (self.kind_mismatch, o.kind_mismatch)):
            for k, v in b.items():
                a[k] = a.get(k, 0) + v
        self.signatures |= o.signatures
        self.samples = (self.samples + o.samples)[:3]

    def as_dict(self):
        return {"histories": self.histories, "events": self.events, "entry_point_calls_compared": self.calls,
                "state_dumps_compared": self.dump_compares, "events_by_kind": dict(sorted(self.by_event.items())),
                "outcomes": dict(sorted(self.by_outcome.items())), "error_kinds": dict(sorted(self.err_kinds.items())),
                "configurations": dict(sorted(self.configs.items())),
                "error_kind_mismatches_logged": dict(sorted(self.kind_mismatch.items()))}


def variant_of(msg):
    return next(iter(msg.keys())) if isinstance(msg, dict) and msg else "?"


class History:
    """one history: boot + events, model-led, compared call by call"""

    def __init__(self, harness, driver, seed, profile, stats, build="osmosis", monitors=None, mode="model"):
        self.h = harness
        self.d = driver
        self.mode = mode
        self.iw = None
        self.prev = None
        self.findings = []
        self.rng = random.Random(seed)
        self.seed = seed
        self.profile = profile
        self.stats = stats
        self.build = build
        self.su = Setup(self.rng, profile)
        self.time = T0
        self.height = 100
        self.events = []          # replayable log
        self.dump = None
        self.monitors = monitors or []
        self.running = False
        self.nominated_at = None
        self.tx = 0
        self.mt = None

    # ----- low level -----
    def _compare_call(self, call, res_h):
        res_m = call["result"]
        om, oh = outcome(res_m), outcome(res_h)
        self.stats.calls += 1
        entry = call["entry"]
        var = variant_of(call.get("msg")) if entry == "execute" else entry
        self.stats.bump(self.stats.by_outcome, "%s:%s" % (var, om))
        if om != oh:
            raise Divergence("outcome", {"call": call, "model": res_m, "impl": res_h})
        if om == "ok":
            mm = res_m["ok"]["msgs"]
            mh = canon_msgs(res_h["ok"])
            if mm != mh:
                raise Divergence("msgs", {"call": call, "model": mm, "impl": mh})
            sig = (var, "ok", tuple((m.get("type_url") or m["kind"]) for m in mm))
        else:
            km, kh = err_kind(res_m), err_kind(res_h)
            self.stats.bump(self.stats.err_kinds, "%s:%s" % (var, kh))
            if km != kh:
                self.stats.bump(self.stats.kind_mismatch, "%s:%s!=%s" % (var, km, kh))
                if om == "err":
                    raise Divergence("outcome", {"call": call, "what": "error kind", "model": res_m, "impl": res_h})
            sig = (var, om, kh)
        self.stats.signatures.add(sig)

    def _replay_calls(self, tx):
        self.h.env(self.time, self.height, self.tx_index)
        self.h.call({"op": "snap"})
        try:
            for call in tx["calls"]:
                e = call["entry"]
                if e == "execute":
                    r = self.h.call({"op": "execute", "sender": call["sender"], "funds": call["funds"], "msg": call["msg"]})
                elif e == "instantiate":
                    r = self.h.call({"op": "instantiate", "sender": call["sender"], "funds": call["funds"], "msg": call["msg"]})
                elif e == "reply":
                    r = self.h.call({"op": "reply", "id": call["id"], "result": call["result_in"]})
                elif e == "sudo":
                    r = self.h.call({"op": "sudo", "msg": call["msg"]})
                else:
                    raise RuntimeError("unknown entry " + e)
                if "bad" in r:
                    raise RuntimeError("harness rejected %r: %r" % (call, r))
                self._compare_call(call, r)
        except Divergence:
            self.h.call({"op": "rollback"})
            raise
        self.h.call({"op": "commit" if tx["committed"] else "rollback"})

    def _users(self):
        return self.su.users + [self.su.contract_like, self.su.hook_staker(), self.su.contract, self.su.admin]

    def _impl_dump(self):
        dh = self.h.call({"op": "dump", "users": self._users()})
        self.stats.dump_compares += 1
        self.prev = self.dump
        self.dump = {"contract": dh["ok"], "ledger": self.iw.ledger_dump(self.su.accounts(), self.su.denoms())}
        self.time = self.iw.time
        self.height = self.iw.height

    def _record(self, ev, tx):
        """normalised view of one transaction for the monitors"""
        calls = []
        for c in tx["calls"]:
            r = c["result"]
            o = outcome(r)
            msgs = []
            if o == "ok":
                raw = r["ok"]["msgs"] if "msgs" in r["ok"] else canon_msgs(r["ok"])
                msgs = [decode_msg(m) for m in raw]
            calls.append({"entry": c["entry"], "outcome": o, "kind": err_kind(r), "msgs": msgs,
                          "sender": c.get("sender"), "funds": c.get("funds"), "msg": c.get("msg"),
                          "id": c.get("id"), "result_in": c.get("result_in"), "panic": r.get("panic")})
        return {"ev": ev, "committed": tx["committed"], "calls": calls, "before": self.prev, "after": self.dump}

    def _sync_dump(self):
        users = self._users()
        dm = self.d.call({"op": "dump", "users": users, "accounts": self.su.accounts(), "denoms": self.su.denoms()})
        dh = self.h.call({"op": "dump", "users": users})
        self.stats.dump_compares += 1
        cm, ch = dm["contract"], dh["ok"]
        for key in cm:
            a, b = cm[key], ch.get(key)
            if key == "requests":
                for u in a:
                    if a[u] != b.get(u):
                        if outcome(a[u]) == outcome(b.get(u, {})) != "ok":
                            continue
                        raise Divergence("state.requests", {"user": u, "model": a[u], "impl": b.get(u)})
                continue
            if a != b:
                if isinstance(a, dict) and isinstance(b, dict) and outcome(a) == outcome(b) and outcome(a) in ("err", "panic"):
                    continue
                raise Divergence("state." + key, {"model": a, "impl": b})
        self.prev = self.dump
        self.dump = dm
        self.time = int(dm["ledger"]["time"])
        self.height = dm["ledger"]["height"]

    def boot(self):
        su = self.su
        self.h.reset("staking", su.chain_prefix, su.contract, getattr(su, "chain_id", None))
        self.tx_index = 0
        req = {"op": "boot", "build": self.build, "self": su.contract, "chain_prefix": su.chain_prefix, "chain_id": getattr(su, "chain_id", "osmosis-1"),
               "sender": su.admin, "time": str(self.time), "height": self.height, "tx": 0,
               "msg": su.instantiate_msg()}
        self.events.append({"boot": req})
        if self.mode == "impl":
            self.iw = ImplWorld(self.h, su.contract, su.chain_prefix, self.time, self.height)
            tx = self.iw.run_exec(su.admin, [], su.instantiate_msg(), None, 0, entry="instantiate")
            self.stats.calls += len(tx["calls"])
            self.boot_tx = tx
            if not tx["committed"]:
                return False
            self._impl_dump()
            return True
        tx = self.d.call(req)
        self.boot_tx = tx
        self._replay_calls(tx)
        if self.profile.get("mt"):
            try:
                self.mt = MtMirror(self.build, su, self.time, self.height)
                self.mt.boot(su.admin, su.instantiate_msg(), tx)
            except MtMismatch as e:
                raise Divergence(e.channel, e.detail)
        self.stats.bump(self.stats.configs, "oracle=%s treasury=%s fee=%s eqprefix=%s bp=%s ub=%s" % (
            su.oracle_on, su.treasury_on, su.fee, su.native_prefix == su.proto_prefix, su.batch_period, su.unbonding))
        if not tx["committed"]:
            return False
        self._sync_dump()
        return True

    def event(self, ev):
        """apply one event to the model, replay its calls on the implementation, compare"""
        if ev.get("ev") == "legacy_batches":       # replay of a recorded store rewrite
            self.legacy_batches()
            return {"committed": True, "calls": []}
        self.events.append(ev)
        self.stats.events += 1
        kind = ev["ev"]
        label = kind + (":" + variant_of(ev["msg"]) if "msg" in ev else "")
        self.stats.bump(self.stats.by_event, label)
        self.tx_index = ev.get("tx", 0) if kind == "exec" else 0
        if self.mode == "impl":
            tx = self.iw.event(ev)
            self.stats.calls += len(tx["calls"])
            for c in tx["calls"]:
                var = variant_of(c.get("msg")) if c["entry"] == "execute" else c["entry"]
                self.stats.bump(self.stats.by_outcome, "%s:%s" % (var, outcome(c["result"])))
                self.stats.signatures.add((var, outcome(c["result"]), err_kind(c["result"])))
            self._impl_dump()
        else:
            tx = self.d.call({"op": "event", "ev": ev})
            if "bad" in tx:
                raise RuntimeError("driver rejected %r: %r" % (ev, tx))
            if kind in ("exec", "hook", "ack", "timeout", "stray_ack", "stray_timeout"):
                self._replay_calls(tx)
            self._sync_dump()
            if self.mt is not None:
                try:
                    self.mt.event(ev, tx, self.dump, self._users())
                    self.stats.bump(self.stats.by_event, "_reference_chain_events")
                except MtMismatch as e:
                    raise Divergence(e.channel, e.detail)
            # run-time cross-check of the world-level theorems (MW/Inv/WorldInv.lean): while the history is
            # inside their hypotheses (`envelope`), each proved equation must evaluate to true on the model
            # world -- which the state comparison above has just tied to the implementation
            if "winv" in tx:
                if tx.get("envelope"):
                    self.stats.bump(self.stats.by_event, "_inside_EvOK")
                    names = ["L1", "L2", "N2", "F1", "N1", "P2", "J"]
                    props = {"L1": "C03", "L2": "C03", "N2": "C02", "F1": "C01", "N1": "C01", "P2": "C07", "J": "C02"}
                    for nm, okv in zip(names, tx["winv"]):
                        if not okv:
                            self.findings.append({"property": props[nm], "monitor": "lean_winv", "signature": {"eq": nm},
                                                  "what": "equation %s proved in MW/Inv/WorldInv.lean evaluates to false on the model world inside its hypotheses" % nm,
                                                  "upto": len(self.events), "event": ev})
                else:
                    self.stats.bump(self.stats.by_event, "_outside_EvOK")
        if self.monitors:
            rec = self._record(ev, tx)
            for m in self.monitors:
                m(self, rec)
        if self.profile.get("queries") and self.rng.random() < self.profile["queries"]:
            self.random_queries()
        if self.mode == "model" and self.rng.random() < self.profile.get("probes", 0.12):
            self.probe()
        if kind != "legacy_batches" and self.rng.random() < self.profile.get("legacy", 0):
            self.legacy_batches()
        return tx

    def legacy_batches(self):
        """rewrite every stored batch the way contract versions before the request counter wrote them
        (`unstake_requests_count` absent), on both sides; the history then goes on from that store -- the
        state of a deployment that was upgraded by the provided migrations"""
        dump = self.h.call({"op": "rawdump"})["ok"]
        pre = (len("batches").to_bytes(2, "big") + b"batches").hex()
        n = 0
        for k, v in dump:
            if k.startswith(pre) and len(k) == len(pre) + 16:
                b = json.loads(bytes.fromhex(v))
                if "unstake_requests_count" in b:
                    del b["unstake_requests_count"]
                    self.h.call({"op": "rawset", "key": k, "value": json.dumps(b, separators=(",", ":")).encode().hex()})
                    n += 1
        if self.mode == "model":
            self.d.call({"op": "legacy_batches"})
            self._sync_dump()
            if self.mt is not None:
                self.mt.legacy_batches()
        else:
            self._impl_dump()
        self.events.append({"ev": "legacy_batches"})
        self.stats.bump(self.stats.by_event, "legacy_batches")
        return n

    def probe(self):
        """probe calls (never committed on either side): a handler followed by `reply` with an arbitrary
        result for its first tracked sub-message -- undecodable data, no data, an error, any sequence --
        or `reply` for an arbitrary id on the current store.  Model and implementation must agree on
        outcome and error kind of both calls."""
        r = self.rng
        su = self.su
        res = r.choice([{"ok": r.choice([0, 1, 7, 2 ** 63])}, {"ok_raw": "ff"}, {"ok_raw": ""}, {"ok_raw": "1005"},
                        {"ok_raw": "0807"}, {"ok_nodata": True}, {"err": "channel closed"}])
        req = {"op": "probe", "reply": res}
        x = r.random()
        if x < 0.45:
            amt = r.choice([su.min_stake, 1000, 10 ** 6])
            mt = r.choice([None, None, r.choice(su.native_users)])
            req.update(sender=r.choice(su.users), funds=[coin(STAKED, amt)],
                       msg={"liquid_stake": {"mint_to": mt, "transfer_to_native_chain": None, "expected_mint_amount": None}})
        elif x < 0.6:
            req.update(sender=r.choice(su.users), funds=[],
                       msg={"recover_pending_ibc_transfers": {"paginated": r.choice([None, True]), "selected_packets": None, "receiver": None}})
        elif x < 0.75:
            try:
                c = self.config()
                who = bech32.hook_account(c["protocol_chain_config"]["ibc_channel_id"], c["native_chain_config"]["reward_collector_address"],
                                          c["protocol_chain_config"]["account_address_prefix"])
            except Exception:  # noqa: BLE001
                who = su.hook_collector()
            req.update(sender=who, funds=[coin(STAKED, r.choice([10, 1000, 10 ** 9]))], msg={"receive_rewards": {}})
        else:
            req["id"] = r.choice([0, 1, self.time, self.time + 1, r.randrange(2 ** 40)])
        m = self.d.call(req)
        self.h.env(self.time, self.height, 0)
        self.h.call({"op": "snap"})
        try:
            out = {}
            if "msg" in req:
                eh = self.h.call({"op": "execute", "sender": req["sender"], "funds": req["funds"], "msg": req["msg"]})
                out["execute"] = eh
                if "ok" in eh:
                    tracked = [mm for mm in eh["ok"].get("messages", []) if mm.get("reply_on") == "always"]
                    if tracked:
                        out["reply_id"] = tracked[0]["id"]
                        out["reply"] = self.h.call({"op": "reply", "id": tracked[0]["id"], "result": res})
            else:
                out["reply"] = self.h.call({"op": "reply", "id": req["id"], "result": res})
        finally:
            self.h.call({"op": "rollback"})
        self.stats.calls += 1
        for k in ("execute", "reply"):
            a, b = m.get(k), out.get(k)
            if (a is None) != (b is None):
                raise Divergence("probe." + k, {"probe": req, "model": m, "impl": out})
            if a is None:
                continue
            self.stats.bump(self.stats.by_outcome, "probe_%s:%s" % (k, outcome(b)))
            self.stats.signatures.add(("probe", k, outcome(b), err_kind(b), next(iter(res))))
            if outcome(a) != outcome(b) or (outcome(a) == "err" and err_kind(a) != err_kind(b)):
                raise Divergence("probe." + k, {"probe": req, "model": m, "impl": out})
            if outcome(b) == "panic":
                self.findings.append({"property": "C16", "monitor": "no_panic", "signature": {"entry": k, "variant": "probe", "site": "probe"},
                                      "what": "%s panics in a probe: %s" % (k, b.get("panic", "")[:120]), "upto": len(self.events), "event": req})
        if m.get("reply_id") != out.get("reply_id"):
            raise Divergence("probe.reply_id", {"probe": req, "model": m, "impl": out})

    def random_queries(self):
        """C17: random (start_after, limit, status) triples, id lists and users; model vs implementation,
        and chained pages vs the unpaginated answer of the implementation itself"""
        r = self.rng
        nb = len(self.batches())
        seqs = [p["sequence"] for p in self.inflight()]
        qs = []
        for _ in range(3):
            qs.append({"batches": {"start_after": r.choice([None, 0, 1, 2, nb - 1, nb, nb + 5]),
                                   "limit": r.choice([None, 0, 1, 2, 3, 10, 2 ** 32 - 1]),
                                   "status": r.choice([None, None, "Pending", "Submitted", "Received"])}})
        qs.append({"batches_by_ids": {"ids": [r.choice([0, 1, 2, 3, nb, nb + 1, 99]) for _ in range(r.randrange(0, 6))]}})
        qs.append({"batch": {"id": r.choice([0, 1, nb, nb + 1])}})
        qs.append({"ibc_queue": {"start_after": r.choice([None, 0] + seqs + [s_ - 1 for s_ in seqs] + [s_ + 1 for s_ in seqs]),
                                 "limit": r.choice([None, 0, 1, 2, 10])}})
        qs.append({"ibc_reply_queue": {"start_after": None, "limit": r.choice([None, 1])}})
        qs.append({"unstake_requests": {"user": r.choice(self._users())}})
        qs.append({r.choice(["all_unstake_requests", "all_unstake_requests_v2"]):
                   {"start_after": r.choice([None, 0, 1, nb]), "limit": r.choice([None, 0, 1, 2, 5, 2 ** 32 - 1])}})
        # the implementation against itself first (an oracle that needs no model): BatchesByIds is exactly the
        # existing requested batches, in request order; UnstakeRequests(u) is exactly u's entries of the
        # complete request listing; the transfer queue pages completely
        def finding(mon, sig, what):
            self.findings.append({"property": "C17", "monitor": mon, "signature": sig, "what": what,
                                  "upto": len(self.events), "event": self.events[-1]})
        fullb = self.h.call({"op": "query", "msg": {"batches": {"start_after": None, "limit": None, "status": None}}})
        if "ok" in fullb:
            byid = {b["id"]: b for b in fullb["ok"]["batches"]}
            for q in qs:
                if "batches_by_ids" in q:
                    ids = q["batches_by_ids"]["ids"]
                    a = self.h.call({"op": "query", "msg": q})
                    want = [byid[i] for i in ids if i in byid]
                    if "ok" in a and a["ok"]["batches"] != want:
                        finding("by_ids", {"n": len(ids)}, "BatchesByIds %s returns ids %s, the existing requested batches are %s" % (
                            ids, [b["id"] for b in a["ok"]["batches"]], [b["id"] for b in want]))
                if "batch" in q:
                    a = self.h.call({"op": "query", "msg": q})
                    if ("ok" in a) != (q["batch"]["id"] in byid) or ("ok" in a and a["ok"] != byid[q["batch"]["id"]]):
                        finding("batch_by_id", {}, "Batch %s disagrees with the Batches listing" % q["batch"]["id"])
        if "ok" in fullb:
            for st_ in ("Pending", "Submitted", "Received"):
                fa = self.h.call({"op": "query", "msg": {"batches": {"start_after": None, "limit": None, "status": st_}}})
                want = [x for x in fullb["ok"]["batches"] if x["status"] == st_.lower()]
                if "ok" in fa and fa["ok"]["batches"] != want:
                    finding("status_filter", {"status": st_}, "Batches{status: %s} returns ids %s; the complete listing has %s with that status" % (
                        st_, [x["id"] for x in fa["ok"]["batches"]], [x["id"] for x in want]))
        fullq0 = self.h.call({"op": "query", "msg": {"ibc_queue": {"start_after": None, "limit": None}}})
        for q_ in qs:
            # any cursor (stored key or not), any limit, any status: the page is the entries of the complete listing
            # strictly after the cursor (matching the status), cut at the limit
            if "batches" in q_ and "ok" in fullb:
                p_ = q_["batches"]
                want = [x for x in fullb["ok"]["batches"] if (p_["start_after"] is None or x["id"] > p_["start_after"])
                        and (p_["status"] is None or x["status"] == p_["status"].lower())]
                if p_["limit"] is not None:
                    want = want[:p_["limit"]]
                a_ = self.h.call({"op": "query", "msg": q_})
                if "ok" in a_ and a_["ok"]["batches"] != want:
                    finding("cursor_exclusive", {"q": "batches"}, "Batches %s returns ids %s; the complete listing gives %s" % (
                        p_, [x["id"] for x in a_["ok"]["batches"]], [x["id"] for x in want]))
            if "ibc_queue" in q_ and "ok" in fullq0:
                p_ = q_["ibc_queue"]
                want = [x for x in fullq0["ok"]["ibc_queue"] if p_["start_after"] is None or x["sequence"] > p_["start_after"]]
                if p_["limit"] is not None:
                    want = want[:p_["limit"]]
                a_ = self.h.call({"op": "query", "msg": q_})
                if "ok" in a_ and a_["ok"]["ibc_queue"] != want:
                    finding("cursor_exclusive", {"q": "ibc_queue"}, "IbcQueue %s returns sequences %s; the complete listing gives %s" % (
                        p_, [x["sequence"] for x in a_["ok"]["ibc_queue"]], [x["sequence"] for x in want]))
        allr = self.h.call({"op": "query", "msg": {"all_unstake_requests": {"start_after": None, "limit": None}}})
        if "ok" in allr:
            for u in self._users():
                a = self.h.call({"op": "query", "msg": {"unstake_requests": {"user": u}}})
                want = sorted([x for x in allr["ok"] if x["user"] == u], key=lambda x: x["batch_id"])
                if "ok" in a and a["ok"] != want:
                    finding("user_index", {}, "UnstakeRequests(%s) = %s, the complete listing holds %s" % (u, a["ok"], want))
        fullq = self.h.call({"op": "query", "msg": {"ibc_queue": {"start_after": None, "limit": None}}})
        if "ok" in fullq:
            got, cursor = [], None
            for _ in range(len(fullq["ok"]["ibc_queue"]) + 2):
                pg = self.h.call({"op": "query", "msg": {"ibc_queue": {"start_after": cursor, "limit": 2}}})
                if "ok" not in pg or not pg["ok"]["ibc_queue"]:
                    break
                got += pg["ok"]["ibc_queue"]
                cursor = pg["ok"]["ibc_queue"][-1]["sequence"]
            if got != fullq["ok"]["ibc_queue"]:
                finding("queue_pages", {}, "chained pages of the transfer queue differ from the unpaginated answer")
        for q in qs:
            a = self.h.call({"op": "query", "msg": q})
            self.stats.calls += 1
            self.stats.signatures.add(("query", variant_of(q), outcome(a), json.dumps(q, sort_keys=True)[:80]))
            if self.mode == "model":
                b = self.d.call({"op": "query", "msg": q})
                if outcome(a) != outcome(b) or (outcome(a) == "ok" and a["ok"] != b["ok"]):
                    raise Divergence("query." + variant_of(q), {"query": q, "model": b, "impl": a})
        # chained pages of the implementation against its own unpaginated answer
        for status in (None, r.choice(["Pending", "Submitted", "Received"])):
            limit = r.choice([1, 2, 3])
            full = self.h.call({"op": "query", "msg": {"batches": {"start_after": None, "limit": None, "status": status}}})
            if "ok" not in full:
                continue
            got = []
            cursor = None
            for _ in range(len(full["ok"]["batches"]) + 2):
                pg = self.h.call({"op": "query", "msg": {"batches": {"start_after": cursor, "limit": limit, "status": status}}})
                if "ok" not in pg or not pg["ok"]["batches"]:
                    break
                got += pg["ok"]["batches"]
                cursor = pg["ok"]["batches"][-1]["id"]
            if got != full["ok"]["batches"]:
                self.findings.append({"property": "C17", "monitor": "pages_cover", "signature": {"status": status is not None},
                                      "what": "chained pages (limit %d, status %s) differ from the unpaginated answer" % (limit, status),
                                      "upto": len(self.events), "event": self.events[-1]})
            ids = [b["id"] for b in got]
            if ids != sorted(set(ids)):
                self.findings.append({"property": "C17", "monitor": "pages_order", "signature": {},
                                      "what": "pages not ascending / repeated ids %s" % ids, "upto": len(self.events),
                                      "event": self.events[-1]})

    # ----- views of the model state -----
    def cstate(self):
        return self.dump["contract"]["state"].get("ok")

    def config(self):
        return self.dump["contract"]["config"]["ok"]

    def batches(self):
        b = self.dump["contract"]["batches"]
        return b["ok"]["batches"] if "ok" in b else []

    def bal(self, a, d):
        return int(self.dump["ledger"]["bal"].get(a, {}).get(d, "0"))

    def pkts(self, state=None):
        return [p for p in self.dump["ledger"]["pkts"] if state is None or p["state"] == state]

    def inflight(self):
        q = self.dump["contract"]["ibc_queue"]
        return q["ok"]["ibc_queue"] if "ok" in q else []

    def requests_of(self, u):
        r = self.dump["contract"]["requests"].get(u, {})
        return r.get("ok", [])


def exec_ev(sender, msg, funds=None, faults=None, tx=0):
    ev = {"ev": "exec", "sender": sender, "funds": funds or [], "msg": msg, "tx": tx}
    if faults:
        ev["faults"] = faults
    return ev


def coin(denom, amount):
    return {"denom": denom, "amount": str(amount)}
