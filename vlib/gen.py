"""State-aware generator of staking histories (DESIGN.md §5.4).  Mostly-valid events with a fixed
share of deliberately invalid ones; every choice comes from the history's own PRNG."""
from .cosim import DAY, NS, STAKED, coin, exec_ev

AMOUNTS = [1, 2, 3, 7, 99, 100, 101, 999, 1000, 1001, 5000, 12345, 10 ** 6, 10 ** 6 + 1, 3 * 10 ** 9,
           10 ** 12, 10 ** 18, 10 ** 24, 10 ** 27]

DEFAULT_WEIGHTS = {
    "advance": 10, "stake": 14, "unstake": 9, "submit": 7, "deliver": 6, "rewards": 5, "withdraw": 8,
    "ack": 10, "timeout": 3, "recover": 5, "stray": 2, "breaker": 1, "resume": 2, "update_config": 2,
    "validators": 1, "ownership": 3, "fee_withdraw": 2, "donate": 1, "unauthorized": 4, "garbage": 1,
    "outage": 1, "longrun": 0, "unknown": 0, "dust": 0.4, "drain": 0.3,
}


def pick_weighted(rng, weights):
    items = [(k, w) for k, w in weights.items() if w > 0]
    tot = sum(w for _, w in items)
    x = rng.random() * tot
    for k, w in items:
        x -= w
        if x <= 0:
            return k
    return items[-1][0]


class Gen:
    def __init__(self, hist, weights=None):
        self.h = hist
        self.rng = hist.rng
        self.su = hist.su
        self.w = dict(DEFAULT_WEIGHTS)
        if weights:
            self.w.update(weights)

    # -- helpers --
    def amount(self):
        r = self.rng
        base = r.choice(AMOUNTS)
        if r.random() < 0.3:
            base = max(1, base + r.choice([-1, 1]))
        return base

    def some_user(self):
        return self.rng.choice(self.su.users)

    def faults(self):
        r = self.rng
        f = {}
        if r.random() < 0.06:
            f["fail_transfer"] = [r.choice([0, 1])]
        if r.random() < 0.02:
            f["fail_oracle"] = True
        if r.random() < 0.03:
            f["blocked"] = [self.su.treasury, self.su.treasury2]      # honoured by the implementation-led chain only
        return f or None

    def ensure_funds(self, who, denom, amount):
        have = self.h.bal(who, denom)
        if have < amount:
            self.h.event({"ev": "faucet", "to": who, "coin": coin(denom, amount - have)})

    def identity(self, role):
        """(channel, native sender) a Receive* hook is delivered with: normally the identity the contract
        is configured with *now*; sometimes one it was configured with earlier (stale after an update)"""
        r = self.rng
        su = self.su
        try:
            c = self.h.config()
            cur = (c["protocol_chain_config"]["ibc_channel_id"],
                   c["native_chain_config"]["staker_address" if role == "staker" else "reward_collector_address"])
        except Exception:  # noqa: BLE001
            cur = (su.channel, su.staker if role == "staker" else su.collector)
        seen = self.h.__dict__.setdefault("identities_" + role, [])
        if cur not in seen:
            seen.append(cur)
        boot = (su.channel, su.staker if role == "staker" else su.collector)
        if boot not in seen:
            seen.append(boot)
        stale = [x for x in seen if x != cur]
        if stale and r.random() < 0.2:
            return r.choice(stale)
        return cur

    def ev_outage(self):
        """a burst of outbound transfers that all fail (channel outage), then recoveries: more refundable
        packets of one receiver than one page (10) of a paginated recovery holds"""
        r = self.rng
        su = self.su
        h = self.h
        st = h_state(h)
        if st is None or h.config().get("stopped"):
            return self.ev_resume()
        k = r.choice([11, 12, 13, 21])
        use_rewards = int(st["total_liquid_stake_token"]) > 0 and r.random() < 0.4
        for i in range(k):
            if use_rewards:
                ch, who = self.identity("collector")
                h.event({"ev": "hook", "channel": ch, "native_sender": who, "coin": coin(STAKED, 1000 + i),
                         "msg": {"receive_rewards": {}}, "faults": {}})
            else:
                u = r.choice(su.users)
                amt = max(su.min_stake, 1000) + i
                self.ensure_funds(u, STAKED, amt)
                h.event(exec_ev(u, {"liquid_stake": {"mint_to": None, "transfer_to_native_chain": None, "expected_mint_amount": None}},
                                [coin(STAKED, amt)], None, tx=i % 3))
            if r.random() < 0.15:
                h.event({"ev": "advance", "dt": str(r.choice([1, NS])), "dh": 1})
        for p in list(h.pkts("pending")):
            x = r.random()
            if x < 0.55:
                h.event({"ev": "timeout", "seq": p["seq"]})
            elif x < 0.95:
                h.event({"ev": "ack", "seq": p["seq"], "success": False})
        out = []
        for _ in range(r.choice([1, 2, 3])):
            pag = r.choice([True, True, True, None, False])
            out.append(exec_ev(self.some_user(), {"recover_pending_ibc_transfers": {
                "paginated": pag, "selected_packets": None, "receiver": r.choice([None, None, su.staker])}}, [], self.faults()))
        return out

    def ev_longrun(self):
        """one account unstakes into more than thirty consecutive batches, each submitted as soon as it is due (at most
        once per history): a per-user request index longer than any page size or cap the queries might apply, and a
        long tail of Submitted batches"""
        r = self.rng
        su = self.su
        h = self.h
        st = h_state(h)
        if getattr(h, "longrun_done", False):
            return self.ev_unstake()
        if st is None or h.config().get("stopped"):
            return self.ev_resume()
        h.longrun_done = True
        u = r.choice(su.users)
        k = r.choice([31, 32, 35])
        need = 4 * k
        if h.bal(u, su.lst) < need:
            amt = max(su.min_stake, 10 * need)
            self.ensure_funds(u, STAKED, amt)
            h.event(exec_ev(u, {"liquid_stake": {"mint_to": None, "transfer_to_native_chain": None, "expected_mint_amount": None}},
                            [coin(STAKED, amt)]))
        for i in range(k):
            if h.bal(u, su.lst) < 3:
                break
            h.event(exec_ev(u, {"liquid_unstake": {}}, [coin(su.lst, r.choice([1, 2, 3]))]))
            if r.random() < 0.2:      # a second requester in some batches, a top-up in others
                v = r.choice(su.users)
                if h.bal(v, su.lst) > 0:
                    h.event(exec_ev(v, {"liquid_unstake": {}}, [coin(su.lst, 1)]))
            pend = [b for b in h.batches() if b["status"] == "pending"]
            if not pend:
                break
            due = int(pend[0]["next_batch_action_time"])
            if due > h.time:
                h.event({"ev": "advance", "dt": str(due - h.time + r.choice([0, 1, NS])), "dh": 1})
            h.event(exec_ev(r.choice(su.users), {"submit_batch": {}}, []))
        return [exec_ev(u, {"liquid_unstake": {}}, [coin(su.lst, 1)])] if h.bal(u, su.lst) > 0 else self.ev_advance()

    def ev_dust(self):
        """a batch that holds one large and one dust request comes back one unit (or half) short, so that the dust
        request's share rounds to zero; then its owner withdraws (at most once per history)"""
        r = self.rng
        su = self.su
        h = self.h
        st = h_state(h)
        if getattr(h, "dust_done", False):
            return self.ev_withdraw()
        if st is None or h.config().get("stopped"):
            return self.ev_resume()
        h.dust_done = True
        a, b = r.sample(su.users, 2)
        stake = {"liquid_stake": {"mint_to": None, "transfer_to_native_chain": None, "expected_mint_amount": None}}
        for u, need in ((a, 1000), (b, 1)):
            if h.bal(u, su.lst) < need:
                amt = max(su.min_stake, 10 * need)
                self.ensure_funds(u, STAKED, amt)
                h.event(exec_ev(u, stake, [coin(STAKED, amt)]))
        if h.bal(a, su.lst) < 2 or h.bal(b, su.lst) < 1:
            return self.ev_advance()
        h.event(exec_ev(a, {"liquid_unstake": {}}, [coin(su.lst, max(2, h.bal(a, su.lst) // r.choice([1, 2])))]))
        h.event(exec_ev(b, {"liquid_unstake": {}}, [coin(su.lst, 1)]))
        pend = [x for x in h.batches() if x["status"] == "pending"]
        if not pend:
            return self.ev_advance()
        bid = pend[0]["id"]
        due = int(pend[0]["next_batch_action_time"]) // NS
        if due * NS > h.time:
            h.event({"ev": "advance", "dt": str(due * NS - h.time + r.choice([0, 1, NS])), "dh": 1})
        h.event(exec_ev(r.choice(su.users), {"submit_batch": {}}, []))
        sub = [x for x in h.batches() if x["id"] == bid and x["status"] == "submitted"]
        if not sub:
            return self.ev_advance()
        due = int(sub[0]["next_batch_action_time"]) // NS
        if due * NS > h.time:
            h.event({"ev": "advance", "dt": str(due * NS - h.time + r.choice([0, 1, NS])), "dh": 1})
        exp = int(sub[0]["expected_native_unstaked"])
        ch, sender = self.identity("staker")
        h.event({"ev": "hook", "channel": ch, "native_sender": sender, "coin": coin(STAKED, max(1, r.choice([exp - 1, exp - 1, exp // 2]))),
                 "msg": {"receive_unstaked_tokens": {"batch_id": bid}}})
        first, second = r.choice([(b, a), (b, a), (a, b)])
        h.event(exec_ev(first, {"withdraw": {"batch_id": bid}}, []))
        return [exec_ev(second, {"withdraw": {"batch_id": bid}}, [], self.faults())]

    def ev_drain(self):
        """every holder on the protocol chain unstakes everything and the batch is submitted, so that (unless LST lives
        on the native chain) no LST is outstanding while staked asset may still be accounted; then a reward arrives and
        somebody stakes again (at most once per history)"""
        r = self.rng
        su = self.su
        h = self.h
        st = h_state(h)
        if getattr(h, "drain_done", False):
            return self.ev_rewards()
        if st is None or h.config().get("stopped"):
            return self.ev_resume()
        h.drain_done = True
        stake = {"liquid_stake": {"mint_to": None, "transfer_to_native_chain": None, "expected_mint_amount": None}}
        holders = [u for u in su.users + [su.contract_like] if h.bal(u, su.lst) > 0]
        if not holders:
            u = r.choice(su.users)
            amt = max(su.min_stake, 1000)
            self.ensure_funds(u, STAKED, amt)
            h.event(exec_ev(u, stake, [coin(STAKED, amt)]))
            holders = [u] if h.bal(u, su.lst) > 0 else []
        for u in holders:
            h.event(exec_ev(u, {"liquid_unstake": {}}, [coin(su.lst, h.bal(u, su.lst))]))
        pend = [x for x in h.batches() if x["status"] == "pending"]
        if pend:
            due = int(pend[0]["next_batch_action_time"]) // NS
            if due * NS > h.time:
                h.event({"ev": "advance", "dt": str(due * NS - h.time + r.choice([0, 1, NS])), "dh": 1})
            h.event(exec_ev(r.choice(su.users), {"submit_batch": {}}, []))
        ch, who = self.identity("collector")
        h.event({"ev": "hook", "channel": ch, "native_sender": who, "coin": coin(STAKED, r.choice([100, 1000, 12345])),
                 "msg": {"receive_rewards": {}}, "faults": {}})
        u = r.choice(su.users)
        amt = max(su.min_stake, r.choice([1000, 5000]))
        self.ensure_funds(u, STAKED, amt)
        return [exec_ev(u, stake, [coin(STAKED, amt)])]

    def ev_unknown(self):
        """a message variant the source declares and the model does not know (only when the interface theorem is
        broken): fields filled by type, from any sender, with or without funds"""
        from .iface import unknown_exec_variants
        r = self.rng
        su = self.su
        vs = unknown_exec_variants()
        if not vs:
            return self.ev_unauthorized()
        tag, fields = r.choice(vs)
        # the sender first: accounts with open requests (the more the better) are the interesting callers of anything
        # that looks like a withdrawal; ids of their batches, with repeats, are the interesting id lists
        rich = sorted(su.users + [su.contract_like], key=lambda u: -len(self.h.requests_of(u)))
        sender = rich[0] if (self.h.requests_of(rich[0]) and r.random() < 0.6) else r.choice(
            su.users + su.users + [su.admin] + su.monitors + [su.contract_like])
        own = [x["batch_id"] for x in self.h.requests_of(sender)]

        def val(ty):
            if ty.startswith("Option<"):
                return None if r.random() < 0.4 else val(ty[7:-1])
            if ty.startswith("Vec<u64>") and own and r.random() < 0.7:
                k = r.choice([1, 2, 3, 3, 4])
                xs = [r.choice(own) for _ in range(k)]
                if len(own) >= 2 and r.random() < 0.5:
                    a_, b_ = r.sample(own, 2)
                    xs = [a_, b_, a_]
                return xs
            if ty.startswith("Vec<"):
                return [val(ty[4:-1]) for _ in range(r.choice([0, 1, 2, 3, 3, 4]))]
            if ty in ("String", "Addr"):
                return r.choice(su.users + [su.admin, su.contract, su.treasury, su.staker, su.native_users[0]])
            if ty in ("Uint128", "u128"):
                return str(r.choice([0, 1, 1000, 10 ** 6]))
            if ty in ("u64", "u32", "u8", "usize"):
                nb = max(1, len(self.h.batches()))
                return r.choice([0, 1, 1, 2, 2, 3, 10, r.randrange(1, nb + 1), r.randrange(1, nb + 1)])
            if ty == "bool":
                return r.random() < 0.5
            if ty == "Coin":
                return coin(r.choice([STAKED, su.lst]), r.choice([1, 1000]))
            return None
        msg = {tag: {f: val(t) for f, t in fields}}
        funds = []
        if r.random() < 0.3:
            amt = r.choice([1, 1000])
            self.ensure_funds(sender, STAKED, amt)
            funds = [coin(STAKED, amt)]
        return [exec_ev(sender, msg, funds)]

    # -- event builders; each returns a list of events (usually one) --
    def ev_advance(self):
        r = self.rng
        h = self.h
        targets = []
        now_s = h.time // NS
        for b in h.batches():
            t = int(b["next_batch_action_time"]) // NS
            if b["status"] in ("pending", "submitted") and t > 0:
                targets.append(t)
        if h.nominated_at is not None:
            targets.append(h.nominated_at // NS + 7 * DAY)
        choice = r.random()
        if targets and choice < 0.6:
            t = r.choice(targets)
            goal = t + r.choice([-1, 0, 0, 1, 5])
            frac = r.choice([0, 0, 1, 500_000_000, 999_999_999])
            dt = goal * NS + frac - h.time
            if dt <= 0:
                dt = r.choice([1, NS, 60 * NS])
        else:
            dt = r.choice([1, 999_999_999, NS, 60 * NS, 3600 * NS, DAY * NS, 7 * DAY * NS])
        return [{"ev": "advance", "dt": str(dt), "dh": max(1, dt // (6 * NS))}]

    def ev_stake(self):
        r = self.rng
        su = self.su
        who = r.choice(su.users + [su.contract_like]) if r.random() < 0.85 else r.choice(su.users)
        amt = self.amount()
        if r.random() < 0.25:
            amt = su.min_stake + r.choice([-1, 0, 1])
            amt = max(amt, 1)
        mint_to = None
        flag = None
        x = r.random()
        if who == su.contract_like and x < 0.8:
            mint_to = r.choice(su.users)
        elif x < 0.15:
            mint_to = r.choice(su.users)
        elif x < 0.40:
            mint_to = r.choice(su.native_users + [su.staker])
        elif x < 0.44:
            mint_to = r.choice(["", "osmo1invalid", su.validators[0], su.users[0].upper(),
                                # multi-byte characters straddling the byte offset where a configured prefix ends
                                su.proto_prefix[:-1] + "€1" + su.users[0][len(su.proto_prefix) + 1:],
                                su.native_prefix[:-2] + "é" + su.native_users[0][len(su.native_prefix) - 1:],
                                su.native_prefix[:-1] + "€"])
        if r.random() < 0.3:
            flag = r.choice([True, False])
        expected = None
        st = h_state(self.h)
        if st and r.random() < 0.3:
            n, l = int(st["total_native_token"]), int(st["total_liquid_stake_token"])
            m = amt if n == 0 or l == 0 else amt * l // n
            expected = str(max(0, m + r.choice([-1, 0, 0, 1])))
        self.ensure_funds(who, STAKED, amt)
        funds = [coin(STAKED, amt)]
        y = r.random()
        if y < 0.03:
            funds = []
        elif y < 0.05:
            funds = [coin(su.lst, amt)]
        elif y < 0.07:
            funds = [coin(STAKED, amt), coin(su.lst, 1)]
        msg = {"liquid_stake": {"mint_to": mint_to, "transfer_to_native_chain": flag, "expected_mint_amount": expected}}
        return [exec_ev(who, msg, funds, self.faults(), tx=r.choice([0, 0, 1, 7, None]))]

    def ev_unstake(self):
        r = self.rng
        su = self.su
        holders = [u for u in su.users + [su.contract_like] if self.h.bal(u, su.lst) > 0]
        if not holders:
            return self.ev_stake()
        who = r.choice(holders)
        have = self.h.bal(who, su.lst)
        amt = r.choice([have, max(1, have // 2), max(1, have // 3), 1, min(have, 7)])
        if r.random() < 0.04:
            amt = have + 1
        return [exec_ev(who, {"liquid_unstake": {}}, [coin(su.lst, amt)])]

    def ev_submit(self):
        return [exec_ev(self.rng.choice(self.su.users + [self.su.admin]), {"submit_batch": {}}, [], self.faults())]

    def ev_deliver(self):
        r = self.rng
        su = self.su
        subs = [b for b in self.h.batches() if b["status"] == "submitted"]
        if subs and r.random() < 0.9:
            b = r.choice(subs)
            exp = int(b["expected_native_unstaked"])
            amt = r.choice([exp, exp, exp, max(0, exp - 1), max(0, exp - 1), exp + 1, exp // 2, exp * 2 + 1])
            bid = b["id"]
        else:
            bid = r.choice([0, 1, 2, 99])
            amt = self.amount()
        ch, sender = self.identity("staker")
        x = r.random()
        if x < 0.08:
            sender = su.impostor
        elif x < 0.12:
            ch = su.other_channel
        elif x < 0.15:
            sender = su.collector
        denom = STAKED if r.random() < 0.95 else su.lst
        if amt == 0:
            amt = 1 if r.random() < 0.5 else 0
        return [{"ev": "hook", "channel": ch, "native_sender": sender, "coin": coin(denom, amt),
                 "msg": {"receive_unstaked_tokens": {"batch_id": bid}}}]

    def ev_rewards(self):
        r = self.rng
        su = self.su
        amt = self.amount()
        ch, sender = self.identity("collector")
        x = r.random()
        if x < 0.08:
            sender = su.impostor
        elif x < 0.12:
            ch = su.other_channel
        elif x < 0.15:
            sender = su.staker
        denom = STAKED if r.random() < 0.96 else su.lst      # the authorised sender, but not the staked asset
        return [{"ev": "hook", "channel": ch, "native_sender": sender, "coin": coin(denom, amt),
                 "msg": {"receive_rewards": {}}, "faults": self.faults() or {}}]

    def ev_withdraw(self):
        r = self.rng
        su = self.su
        cands = []
        recv = {b["id"] for b in self.h.batches() if b["status"] == "received"}
        for u in su.users + [su.contract_like]:
            for q in self.h.requests_of(u):
                if q["batch_id"] in recv:
                    cands.append((u, q["batch_id"]))
        dust = []
        for (u_, b_) in cands:
            for q in self.h.requests_of(u_):
                if q["batch_id"] == b_ and int(q["amount"]) <= 7:
                    dust.append((u_, b_))
        if dust and r.random() < 0.4:
            u, bid = r.choice(dust)
        elif cands and r.random() < 0.85:
            u, bid = r.choice(cands)
        else:
            u = self.some_user()
            bs = self.h.batches()
            bid = r.choice([b["id"] for b in bs] + [0, 77]) if bs else 1
        return [exec_ev(u, {"withdraw": {"batch_id": bid}}, [], self.faults())]

    def ev_ack(self):
        r = self.rng
        pend = self.h.pkts("pending")
        if not pend:
            return self.ev_stray()
        p = r.choice(pend)
        return [{"ev": "ack", "seq": p["seq"], "success": r.random() < 0.7}]

    def ev_timeout(self):
        pend = self.h.pkts("pending")
        if not pend:
            return self.ev_stray()
        return [{"ev": "timeout", "seq": self.rng.choice(pend)["seq"]}]

    def ev_stray(self):
        r = self.rng
        known = [p["sequence"] for p in self.h.inflight()]
        x = r.random()
        if known and x < 0.5:
            # right sequence, wrong channel
            ch, seq = self.su.other_channel, r.choice(known)
        else:
            # right channel, unknown sequence
            ch = self.su.channel
            seq = r.choice([0, 10 ** 6, 2 ** 63]) + r.randrange(1000)
            while seq in known:
                seq += 1
        if r.random() < 0.5:
            return [{"ev": "stray_ack", "channel": ch, "seq": seq, "success": r.random() < 0.5}]
        return [{"ev": "stray_timeout", "channel": ch, "seq": seq}]

    def ev_recover(self):
        r = self.rng
        su = self.su
        infl = self.h.inflight()
        receivers = sorted({p["receiver"] for p in infl})
        x = r.random()
        sel = None
        recv = None
        pag = r.choice([None, True, False])
        who = self.some_user()
        if x < 0.45:
            recv = None
        elif x < 0.75 and receivers:
            recv = r.choice(receivers)
        elif x < 0.8:
            recv = r.choice(su.native_users)
        elif infl:
            # admin-forced
            who = su.admin if r.random() < 0.8 else self.some_user()
            p = r.choice(infl)
            same = [q["sequence"] for q in infl if q["receiver"] == p["receiver"]]
            k = r.randint(1, min(3, len(same)))
            sel = r.sample(same, k)
            if r.random() < 0.3:
                sel = sel + [sel[0]]
            if r.random() < 0.1:
                sel = sel + [424242]
            recv = p["receiver"] if p["receiver"] != su.staker or r.random() < 0.5 else None
            if r.random() < (0.45 if p["receiver"] != su.staker else 0.15):
                # the selection belongs to one receiver, the message names none or another one
                recv = r.choice([None, None, su.staker, r.choice(su.native_users)])
            # a forced recovery of refundable packets only (one receiver, one denom) that names an id again after another
            groups = {}
            for q in infl:
                if q["status"] in ("ack_failure", "timed_out"):
                    groups.setdefault((q["receiver"], q["amount"]["denom"]), []).append(q["sequence"])
            big = [(k_, v_) for k_, v_ in sorted(groups.items()) if len(v_) >= 2]
            if big and r.random() < 0.4:
                (rc_, _), seqs_ = r.choice(big)
                a_, b_ = r.sample(seqs_, 2)
                sel = r.choice([[a_, b_, a_], [a_, b_, b_, a_], [b_, a_, b_]])
                recv = rc_
                who = su.admin
        msg = {"recover_pending_ibc_transfers": {"paginated": pag, "selected_packets": sel, "receiver": recv}}
        return [exec_ev(who, msg, [], self.faults())]

    def ev_breaker(self):
        who = self.rng.choice([self.current_admin()] + self.su.monitors)
        return [exec_ev(who, {"circuit_breaker": {}})]

    def current_admin(self):
        return self.h.dump["contract"]["admin"] or self.su.admin

    def ev_resume(self):
        r = self.rng
        st = h_state(self.h)
        if st is None or r.random() < 0.75:
            # keep the books: resume with the current totals (or zeros at the very beginning)
            raw = self.h.dump["contract"]["state"]
            if st is not None:
                n, l, rw = st["total_native_token"], st["total_liquid_stake_token"], st["total_reward_amount"]
            else:
                n, l, rw = "0", "0", "0"
            _ = raw
        else:
            n, l, rw = str(self.amount()), str(self.amount()), str(r.choice([0, 5, 10 ** 6]))
            if r.random() < 0.3:
                l = "0"
            if r.random() < 0.2:
                n = "0"
        msg = {"resume_contract": {"total_native_token": n, "total_liquid_stake_token": l, "total_reward_amount": rw}}
        return [exec_ev(self.current_admin(), msg)]

    def ev_update_config(self):
        r = self.rng
        su = self.su
        msg = {"native_chain_config": None, "protocol_chain_config": None, "protocol_fee_config": None,
               "monitors": None, "batch_period": None}
        x = r.random()
        if x < 0.35:
            fee = r.choice([0, 1, 5000, 10_000, 10_000, 100_000, 100_001, 2 ** 128 - 1])
            tre = r.choice([None, su.treasury, su.treasury2])
            msg["protocol_fee_config"] = {"dao_treasury_fee": str(fee), "treasury_address": tre}
        elif x < 0.55:
            msg["protocol_chain_config"] = su.proto_cfg(oracle_address=r.choice([None, su.oracle]),
                                                        minimum_liquid_stake_amount=str(r.choice([1, 100, 1000])))
            if r.random() < 0.15:
                msg["protocol_chain_config"]["ibc_channel_id"] = r.choice(["channel-+7", "channel-", "channel-x", "channel-07"])
            elif r.random() < self.h.profile.get("reroute", 0.08):
                # a valid new route (leaves the hypotheses of the ledger equations for the rest of the history)
                msg["protocol_chain_config"]["ibc_channel_id"] = r.choice([su.other_channel, "channel-9", su.channel])
        elif x < 0.7:
            msg["batch_period"] = r.choice([0, 1, 3600, DAY, DAY, 2 ** 64 - 1])
        elif x < 0.8:
            msg["monitors"] = r.choice([[], su.monitors[:1], su.monitors, su.monitors + [su.users[0]]])
        elif x < 0.9:
            msg["native_chain_config"] = su.native_cfg(unbonding_period=r.choice([0, 1, DAY, 21 * DAY, 21 * DAY, 2 ** 64 - 1]),
                                                       validators=r.choice([su.validators[:1], su.validators]))
            if r.random() < self.h.profile.get("reroute", 0.08):
                from . import bech32 as _b
                k = r.choice(["staker_address", "reward_collector_address"])
                msg["native_chain_config"][k] = _b.addr(su.native_prefix, r.choice(["staker2", "collector2"]))
        else:
            msg["protocol_fee_config"] = {"dao_treasury_fee": "10000", "treasury_address": r.choice([su.staker, "x", su.treasury.upper()])}
        if r.random() < 0.35:
            msg = self.multi_section_update()
        return [exec_ev(self.current_admin(), {"update_config": msg})]

    def multi_section_update(self):
        """an arbitrary subset of sections in one message, with prefix changes: addresses of the later
        sections are minted under the old or the new prefix of the earlier ones"""
        from . import bech32
        r = self.rng
        su = self.su
        c = self.h.dump["contract"].get("config")
        c = c["ok"] if isinstance(c, dict) and "ok" in c else None
        old_p = c["protocol_chain_config"]["account_address_prefix"] if c else su.proto_prefix
        old_n = c["native_chain_config"]["account_address_prefix"] if c else su.native_prefix
        msg = {"native_chain_config": None, "protocol_chain_config": None, "protocol_fee_config": None,
               "monitors": None, "batch_period": None}
        new_p, new_n = old_p, old_n
        if r.random() < 0.6:
            new_p = r.choice([old_p, su.proto_prefix, "cosmos", "celestia", "init"])
            o = r.choice([None, bech32.addr(new_p, "oracle", 32), bech32.addr(old_p, "oracle", 32), su.oracle])
            if r.random() < 0.2:
                # the same prefix spelled in upper / mixed case (bech32 allows all-upper), mostly without an address under it
                new_p = r.choice([new_p.upper(), new_p.upper(), new_p.capitalize()])
                o = r.choice([None, None, None, o])
            msg["protocol_chain_config"] = su.proto_cfg(account_address_prefix=new_p, oracle_address=o)
        if r.random() < 0.4:
            new_n = r.choice([old_n, su.native_prefix, "cosmos", "osmo"])
            vp = r.choice([su.val_prefix, new_n + "valoper"])
            pick = r.choice([new_n, new_n, old_n])
            vals = [bech32.addr(r.choice([vp, vp, su.val_prefix]), "val%d" % i) for i in range(r.choice([1, 2, 3]))]
            if r.random() < 0.2:
                vp = r.choice([vp.upper(), vp.upper(), vp.capitalize()])
                vals = r.choice([[], [], vals])
            msg["native_chain_config"] = su.native_cfg(
                account_address_prefix=new_n, validator_address_prefix=vp,
                staker_address=bech32.addr(pick, "staker"), reward_collector_address=bech32.addr(r.choice([new_n, pick]), "collector"),
                validators=vals)
        if r.random() < 0.5:
            p = r.choice([new_p, new_p, old_p])
            msg["protocol_fee_config"] = {"dao_treasury_fee": str(r.choice([0, 5000, 100_000])),
                                          "treasury_address": r.choice([None, bech32.addr(p, "treasury", 32)])}
        if r.random() < 0.6:
            k = r.choice([0, 1, 2, 2])
            ps = [r.choice([new_p, new_p, old_p]) for _ in range(k)]
            ms = [bech32.addr(p, "monitor%d" % (i + 1)) for i, p in enumerate(ps)]
            if ms and r.random() < 0.1:
                ms.append(ms[0])
            msg["monitors"] = ms
        if r.random() < 0.3:
            msg["batch_period"] = r.choice([1, 3600, DAY])
        return msg

    def ev_validators(self):
        r = self.rng
        su = self.su
        v = r.choice(su.validators + [su.staker, "junk"])
        if r.random() < 0.5:
            return [exec_ev(self.current_admin(), {"add_validator": {"new_validator": v}})]
        return [exec_ev(self.current_admin(), {"remove_validator": {"validator": v}})]

    def ev_ownership(self):
        r = self.rng
        su = self.su
        x = r.random()
        pend = self.h.dump["contract"]["pending_owner"]
        if x < 0.35:
            who = self.current_admin()
            tgt = r.choice([su.nominee, su.nominee2, su.admin, "bad", su.staker])
            self.h.nominated_at = self.h.time
            return [exec_ev(who, {"transfer_ownership": {"new_owner": tgt}})]
        if x < 0.5:
            return [exec_ev(self.current_admin(), {"revoke_ownership_transfer": {}})]
        who = pend if pend and r.random() < 0.8 else r.choice([su.nominee, su.nominee2, su.users[0]])
        return [exec_ev(who, {"accept_ownership": {}})]

    def ev_fee_withdraw(self):
        r = self.rng
        st = h_state(self.h)
        fees = int(st["total_fees"]) if st else 0
        n = int(st["total_native_token"]) if st else 0
        amt = r.choice([fees, fees // 2, fees + 1, 0, 1, fees + n, fees + max(1, n // 2)])
        return [exec_ev(self.current_admin(), {"fee_withdraw": {"amount": str(amt)}})]

    def ev_donate(self):
        r = self.rng
        who = self.some_user()
        denom = r.choice([STAKED, STAKED, self.su.lst])
        amt = r.choice([1, 5, 1000])
        if denom == STAKED:
            self.ensure_funds(who, STAKED, amt)
        return [{"ev": "donate", "sender": who, "coin": coin(denom, amt)}]

    def ev_unauthorized(self):
        r = self.rng
        su = self.su
        who = r.choice(su.users + su.monitors + [su.nominee, su.contract, su.hook_staker(), su.hook_collector(), su.contract_like])
        msgs = [
            {"add_validator": {"new_validator": su.validators[2]}},
            {"remove_validator": {"validator": su.validators[0]}},
            {"update_config": {"native_chain_config": None, "protocol_chain_config": None,
                               "protocol_fee_config": None, "monitors": None, "batch_period": 5}},
            {"transfer_ownership": {"new_owner": who}},
            {"revoke_ownership_transfer": {}},
            {"resume_contract": {"total_native_token": "1", "total_liquid_stake_token": "1", "total_reward_amount": "0"}},
            {"fee_withdraw": {"amount": "0"}},
            {"recover_pending_ibc_transfers": {"paginated": None, "selected_packets": [1], "receiver": None}},
            {"circuit_breaker": {}},
            {"accept_ownership": {}},
        ]
        m = r.choice(msgs)
        if r.random() < 0.3:
            # Receive* sent directly by an account that is not the hook account -- including the accounts that hold
            # another role (admin, monitors, treasury, oracle, the staker's / collector's own address)
            who = r.choice([who, self.current_admin(), su.admin, su.treasury, su.oracle, su.staker, su.collector] + su.monitors)
            subs = [b for b in self.h.batches() if b["status"] == "submitted"]
            if subs and r.random() < 0.8:
                b = r.choice(subs)
                m, amt = {"receive_unstaked_tokens": {"batch_id": b["id"]}}, max(1, int(b["expected_native_unstaked"]))
            else:
                m, amt = r.choice([({"receive_rewards": {}}, 50), ({"receive_unstaked_tokens": {"batch_id": 1}}, 50)])
            self.ensure_funds(who, STAKED, amt)
            return [exec_ev(who, m, [coin(STAKED, amt)])]
        return [exec_ev(who, m)]

    def ev_garbage(self):
        r = self.rng
        if r.random() < 0.7:
            return self.mutated_message()
        m = r.choice([
            {"liquid_stake": {"mint_to": 5}}, {"withdraw": {"batch_id": "1"}}, {"no_such": {}},
            {"fee_withdraw": {"amount": 5}}, {"withdraw": {}}, {"liquid_unstake": {"x": 1}},
            {"resume_contract": {"total_native_token": "-1", "total_liquid_stake_token": "1", "total_reward_amount": "0"}},
        ])
        return [exec_ev(self.some_user(), m)]

    def mutated_message(self):
        """the malformed stream: a message some builder just produced, with one structural mutation of its
        JSON (missing / extra / null / wrongly-typed field, renamed or doubled variant, wrong nesting) --
        the contract's deserializer and the model's parser must agree on whether it is a message at all"""
        r = self.rng
        import copy
        builder = r.choice(["stake", "unstake", "withdraw", "recover", "update_config", "validators", "ownership",
                            "fee_withdraw", "resume", "submit", "breaker"])
        base = None
        for ev in getattr(self, "ev_" + builder)():
            if ev.get("ev") == "exec":
                base = ev
        if base is None:
            return [exec_ev(self.some_user(), {"no_such": {}})]
        ev = copy.deepcopy(base)
        msg = ev["msg"]
        var = next(iter(msg))
        body = msg[var]
        kind = r.choice(["drop", "extra", "null", "retype", "variant", "double", "nest", "scalar"])
        if kind == "drop" and isinstance(body, dict) and body:
            del body[r.choice(sorted(body))]
        elif kind == "extra" and isinstance(body, dict):
            body[r.choice(["x", "amount", "id", "limit"])] = r.choice([1, "1", None])
        elif kind == "null" and isinstance(body, dict) and body:
            body[r.choice(sorted(body))] = None
        elif kind == "retype" and isinstance(body, dict) and body:
            k = r.choice(sorted(body))
            v = body[k]
            if isinstance(v, bool):
                body[k] = r.choice(["true", 1])
            elif isinstance(v, int):
                body[k] = r.choice([str(v), -v - 1, v + 0.5, [v]])
            elif isinstance(v, str):
                body[k] = r.choice([int(v) if v.isdigit() and len(v) < 15 else 7, [v], {"a": v}, "-" + v, " " + v, v + " "])
            elif isinstance(v, list):
                body[k] = r.choice([{"0": 1}, "x", (v + [None])])
            elif isinstance(v, dict):
                body[k] = r.choice([[], "x", {kk: vv for kk, vv in list(v.items())[1:]}])
            else:
                body[k] = r.choice([0, "", [], {}])
        elif kind == "variant":
            ev["msg"] = {r.choice([var.upper(), var + "s", var.replace("_", ""), "LiquidStake", ""]): body}
        elif kind == "double":
            ev["msg"] = {var: body, "circuit_breaker": {}}
        elif kind == "nest":
            ev["msg"] = r.choice([[msg], {"msg": msg}, {var: [body]}, {var: {var: body}}])
        else:
            ev["msg"] = r.choice([var, 5, None, [], {var: None}, {var: 1}, {var: []}])
        return [ev]

    def next_events(self):
        # the configured channel changed since the last look: the new channel has its own packet numbering, which may
        # stand anywhere -- below numbers already used on the previous channel included
        try:
            cur = self.h.config()["protocol_chain_config"]["ibc_channel_id"]
        except Exception:  # noqa: BLE001
            cur = None
        last = getattr(self, "last_channel", None)
        self.last_channel = cur
        if last is not None and cur is not None and cur != last and self.rng.random() < 0.6:
            seqs = [p["seq"] for p in self.h.pkts()] or [1]
            return [{"ev": "reseq", "next": self.rng.choice([1, min(seqs), self.rng.choice(seqs), max(seqs)])}]
        k = pick_weighted(self.rng, self.w)
        return getattr(self, "ev_" + k)()


def h_state(h):
    return h.cstate()
