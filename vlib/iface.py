"""Message variants the source declares and the model does not cover (normally none): used to aim the search for a
failing input when an interface theorem (MW/Staking/Interface.lean) no longer checks."""
import os
import sys

ROOT = os.path.dirname(os.path.dirname(os.path.abspath(__file__)))
sys.path.insert(0, os.path.join(ROOT, "translator"))

KNOWN_EXEC = {"liquid_stake", "liquid_unstake", "submit_batch", "withdraw", "add_validator", "remove_validator",
              "transfer_ownership", "accept_ownership", "revoke_ownership_transfer", "update_config", "receive_rewards",
              "receive_unstaked_tokens", "circuit_breaker", "resume_contract", "recover_pending_ibc_transfers", "fee_withdraw"}

_cache = None


def unknown_exec_variants():
    global _cache
    if _cache is None:
        try:
            import interface
            ex = interface.extract()["staking"]["execute"] or []
            _cache = [v for v in ex if v[0] not in KNOWN_EXEC]
        except Exception:  # noqa: BLE001  (a source the translator cannot read: the proof obligation reports it)
            _cache = []
    return _cache
