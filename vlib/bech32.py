"""Reference bech32 (BIP-173) encoder/decoder, written independently of the Rust crate and of
the Lean model; used to mint test addresses and as a third opinion in the C09/C14 differentials."""
import hashlib

CHARSET = "qpzry9x8gf2tvdw0s3jn54khce6mua7l"
GEN = [0x3B6A57B2, 0x26508E6D, 0x1EA119FA, 0x3D4233DD, 0x2A1462B3]


def polymod(values):
    chk = 1
    for v in values:
        b = chk >> 25
        chk = ((chk & 0x1FFFFFF) << 5) ^ v
        for i in range(5):
            chk ^= GEN[i] if ((b >> i) & 1) else 0
    return chk


def hrp_expand(hrp):
    return [ord(x) >> 5 for x in hrp] + [0] + [ord(x) & 31 for x in hrp]


def create_checksum(hrp, data, const=1):
    values = hrp_expand(hrp) + data
    pm = polymod(values + [0] * 6) ^ const
    return [(pm >> 5 * (5 - i)) & 31 for i in range(6)]


def convertbits(data, frombits, tobits, pad=True):
    acc = 0
    bits = 0
    ret = []
    maxv = (1 << tobits) - 1
    for value in data:
        acc = (acc << frombits) | value
        bits += frombits
        while bits >= tobits:
            bits -= tobits
            ret.append((acc >> bits) & maxv)
    if pad:
        if bits:
            ret.append((acc << (tobits - bits)) & maxv)
    elif bits >= frombits or ((acc << (tobits - bits)) & maxv):
        return None
    return ret


def encode(hrp, payload: bytes, const=1):
    data = convertbits(payload, 8, 5)
    combined = data + create_checksum(hrp, data, const)
    return hrp + "1" + "".join(CHARSET[d] for d in combined)


def addr(prefix, seed, n=20):
    """deterministic address from a label"""
    h = hashlib.sha256(seed.encode()).digest()
    if n > 32:
        h = h + hashlib.sha256(h).digest()
    return encode(prefix, h[:n])


def hook_account(channel, sender, prefix):
    """ibc-hooks intermediate sender (spec: osmosis x/ibc-hooks keeper.DeriveIntermediateSender)"""
    th = hashlib.sha256(b"ibc-wasm-hook-intermediary").digest()
    h = hashlib.sha256(th + f"{channel}/{sender}".encode()).digest()
    return encode(prefix, h)


def decode_hrp(a):
    """hrp of a valid bech32 / bech32m string, else None (BIP-173 decoding rules)"""
    if not isinstance(a, str) or any(ord(c) < 33 or ord(c) > 126 for c in a):
        return None
    if a.lower() != a and a.upper() != a:
        return None
    a = a.lower()
    pos = a.rfind("1")
    if pos < 1 or pos + 7 > len(a):
        return None
    hrp, data = a[:pos], a[pos + 1:]
    if any(c not in CHARSET for c in data):
        return None
    vals = [CHARSET.index(c) for c in data]
    pm = polymod(hrp_expand(hrp) + vals)
    if pm not in (1, 0x2BC830A3):
        return None
    return hrp
