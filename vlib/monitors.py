"""Executable property monitors evaluated on the *implementation's* answers (query results of the
real contract, messages it returned, ledgers of the chain simulation).  A failing monitor is a
concrete failing history: it is what a VIOLATION line points to.  Monitors mirror the Lean
predicates of MW/Props/*.lean (same ghost bookkeeping as MW/Chain/Ghost.lean)."""
from .cosim import STAKED
from . import bech32

E27 = 10 ** 27
U128 = 2 ** 128 - 1

VALUE_VARIANTS = ("liquid_stake", "submit_batch", "receive_rewards", "resume_contract", "withdraw")
HALTED_VARIANTS = ("liquid_stake", "liquid_unstake", "submit_batch", "withdraw", "receive_rewards", "receive_unstaked_tokens")
ADMIN_ONLY = ("add_validator", "remove_validator", "update_config", "transfer_ownership",
              "revoke_ownership_transfer", "resume_contract", "fee_withdraw")


def variant(msg):
    return next(iter(msg.keys())) if isinstance(msg, dict) and msg else "?"


def q(dump, key):
    v = dump["contract"].get(key)
    if isinstance(v, dict) and "ok" in v:
        return v["ok"]
    return None


def state(dump):
    return q(dump, "state")


def cfg(dump):
    return q(dump, "config")


def batches(dump):
    b = q(dump, "batches")
    return b["batches"] if b else []


def inflight(dump):
    b = q(dump, "ibc_queue")
    return b["ibc_queue"] if b else []


def bal(dump, a, d):
    return int(dump["ledger"]["bal"].get(a, {}).get(d, "0"))


def dec_str(num, den):
    """Decimal::from_ratio(num, den).to_string()"""
    atomics = num * 10 ** 18 // den
    whole, frac = divmod(atomics, 10 ** 18)
    if frac == 0:
        return str(whole)
    return "%d.%s" % (whole, ("%018d" % frac).rstrip("0"))


def first_exec(rec):
    for c in rec["calls"]:
        if c["entry"] == "execute":
            return c
    return None


def report(hist, prop, monitor, sig, what, rec):
    hist.findings.append({"property": prop, "monitor": monitor, "signature": sig, "what": what,
                          "upto": len(hist.events), "event": rec["ev"]})


class Ghost:
    """history counters (C01/C02/C03)"""

    def __init__(self):
        self.fwd = 0            # first-time transfers of the staked asset toward the staker
        self.set_aside = 0      # sum of expected over all submissions
        self.swept = 0
        self.rebase_n = 0
        self.rebase_l = 0
        self.paid = {}          # batch id -> withdrawn so far
        self.donated = {}       # denom -> amount
        self.fee_accrued = 0
        self.fee_withdrawn = 0


def ghost_of(hist):
    if not hasattr(hist, "ghost"):
        hist.ghost = Ghost()
    return hist.ghost


def in_envelope(rec):
    """the C16 envelope: amounts <= 10^27, exchange rate within [10^-3, 10^3]"""
    b = rec["before"]
    if b is None:
        return True
    st = state(b)
    ev = rec["ev"]
    for c in ev.get("funds", []) + ([ev["coin"]] if "coin" in ev else []):
        if int(c["amount"]) > E27:
            return False
    raw = b["contract"].get("raw_totals")
    if raw is None:
        return False
    _ = st
    n, l = int(raw["total_native_token"]), int(raw["total_liquid_stake_token"])
    if n > E27 or l > E27 or int(raw["total_fees"]) > E27 or int(raw["total_reward_amount"]) > 10 ** 30:
        return False
    if l > 0 and not (l <= 1000 * n and n <= 1000 * l):
        return False
    m = ev.get("msg", {})
    if variant(m) == "receive_rewards" and "coin" in ev and l > 0 and n + int(ev["coin"]["amount"]) > 1000 * l:
        return False    # the reward itself would push the rate out of the envelope
    if variant(m) == "resume_contract":
        r = m["resume_contract"]
        try:
            rn, rl = int(r["total_native_token"]), int(r["total_liquid_stake_token"])
        except Exception:
            return True
        if rn > E27 or rl > E27 or (rl > 0 and not (rl <= 1000 * rn and rn <= 1000 * rl)):
            return False
    if variant(m) == "fee_withdraw":
        try:
            if int(m["fee_withdraw"]["amount"]) > E27:
                return False
        except Exception:
            pass
    _ = raw
    return True


# ---------------------------------------------------------------------------------------------
def m_no_panic(hist, rec):
    """C16"""
    for c in rec["calls"]:
        if c["outcome"] == "panic" and in_envelope(rec):
            var = variant(c["msg"]) if c["entry"] in ("execute", "instantiate") and c["entry"] == "execute" else c["entry"]
            text = (c.get("panic") or "")
            site = text.split(" @ ")[-1] if " @ " in text else text
            what = text.split(" @ ")[0][:80]
            report(hist, "C16", "no_panic", {"entry": c["entry"], "variant": var, "site": classify_panic(text)},
                   "%s panics: %s (%s)" % (var, what, site), rec)
    for key in ("state", "batches", "pending", "config", "ibc_queue"):
        v = rec["after"]["contract"].get(key)
        if isinstance(v, dict) and "panic" in v and query_in_envelope(rec["after"]):
            report(hist, "C16", "no_panic", {"entry": "query", "variant": key, "site": classify_panic(v["panic"])},
                   "query %s panics: %s" % (key, v["panic"][:100]), rec)


def query_in_envelope(dump):
    """queries are inside the C16 envelope when the stored totals are (rate within [10^-3, 10^3])"""
    c = cfg(dump)
    rt = dump["contract"].get("raw_totals")
    if c is None or rt is None:
        return False
    n, l = int(rt["total_native_token"]), int(rt["total_liquid_stake_token"])
    if n > E27 or l > E27:
        return False
    if l > 0 and not (l <= 1000 * n and n <= 1000 * l):
        return False
    return True


def classify_panic(text):
    """stable name of a panic site: `<file>.rs:<line>` of the panic location, with the three
    families that have several call sites folded into one name"""
    import re
    t = text or ""
    if re.fullmatch(r"A\d+\w*(:\w+)?", t):
        return "model:" + t            # a model-side site id (model-led runs compare outcome only)
    m = re.search(r"([A-Za-z0-9_\-]+/src/[A-Za-z0-9_/]+\.rs):(\d+)", t)
    loc = "%s:%s" % (m.group(1).split("/src/")[-1], m.group(2)) if m else t[-50:]
    crate = m.group(1).split("/src/")[0] if m else ""
    if "Option::unwrap()" in t and loc.startswith("execute.rs:10"):
        return "oracle_unwrap"
    return "%s:%s" % (crate.split("-")[0] if crate else "?", loc)


def m_oracle(hist, rec):
    """C15: posted rates are the post-transaction rates; State.rate is the purchase rate; the
    oracle is optional"""
    c = first_exec(rec)
    if c is None or rec["before"] is None:
        return
    var = variant(c["msg"])
    before_cfg = cfg(rec["before"])
    if before_cfg is None:
        return
    oracle = before_cfg["protocol_chain_config"]["oracle_address"]
    if var in VALUE_VARIANTS and c["outcome"] == "panic" and oracle is None and "unwrap" in (c.get("panic") or "") + "A05" * ("A05" in (c.get("panic") or "")):
        report(hist, "C15", "oracle_optional", {"variant": var, "branch": "no_oracle"},
               "%s fails (panics) when no oracle is configured" % var, rec)
        return
    if not rec["committed"] or var not in VALUE_VARIANTS:
        return
    st = state(rec["after"])
    wasm = [m for m in c["msgs"] if m["k"] == "wasm"]
    if oracle is None:
        if wasm:
            report(hist, "C15", "oracle_optional", {"variant": var, "branch": "posts_without_oracle"}, "posted without oracle", rec)
        return
    if len(wasm) != 1:
        report(hist, "C15", "oracle_post", {"variant": var, "branch": "count"}, "%d oracle messages" % len(wasm), rec)
        return
    if st is None:
        return
    n, l = int(st["total_native_token"]), int(st["total_liquid_stake_token"])
    if l == 0:
        red, pur = "0", "0"
    elif n == 0:
        return
    else:
        red, pur = dec_str(n, l), dec_str(l, n)
    import json
    try:
        pr = json.loads(wasm[0]["msg"])["post_rates"]
    except Exception:
        report(hist, "C15", "oracle_post", {"variant": var, "branch": "payload"}, "unparsable payload", rec)
        return
    lst = cfg(rec["after"])["liquid_stake_token_denom"]
    if wasm[0]["contract"] != oracle or pr.get("denom") != lst:
        report(hist, "C15", "oracle_post", {"variant": var, "branch": "target"}, "wrong oracle target/denom", rec)
    if pr.get("redemption_rate") != red or pr.get("purchase_rate") != pur:
        report(hist, "C15", "oracle_post", {"variant": var, "branch": "stale_rates"},
               "%s posted redemption=%s purchase=%s but the post-transaction rates are %s / %s" % (
                   var, pr.get("redemption_rate"), pr.get("purchase_rate"), red, pur), rec)
    if st["rate"] != pur:
        report(hist, "C15", "state_rate", {"variant": var}, "State.rate %s != %s" % (st["rate"], pur), rec)


def refundable(dump, denom):
    return sum(int(p["amount"]["amount"]) for p in inflight(dump)
               if p["amount"]["denom"] == denom and p["status"] in ("ack_failure", "timed_out"))


def m_ledgers(hist, rec):
    """C01 N1, C02 N2, C03 L1/L2 with the ghost counters; C03 delivery; C05 payouts; C11 split"""
    g = ghost_of(hist)
    ev = rec["ev"]
    b, a = rec["before"], rec["after"]
    if b is None or cfg(a) is None:
        return
    su = hist.su
    lst = cfg(a)["liquid_stake_token_denom"]
    D = cfg(a)["protocol_chain_config"]["ibc_token_denom"]
    sb, sa = state(b), state(a)
    c = first_exec(rec)
    if sa is None or sb is None or getattr(hist, "ghost_invalid", False):
        # the State query itself fails (rate outside the representable range): the history has
        # left the envelope; the ghost bookkeeping is not continued
        hist.ghost_invalid = True
        return
    if (ev["ev"] == "donate" or (ev["ev"] == "faucet" and ev["to"] == su.contract)) and rec["committed"]:
        d = ev["coin"]["denom"]
        g.donated[d] = g.donated.get(d, 0) + int(ev["coin"]["amount"])
    if c is not None and rec["committed"] and sb is not None:
        var = variant(c["msg"])
        msgs = c["msgs"]
        staker = cfg(b)["native_chain_config"]["staker_address"]
        if var == "liquid_stake":
            paid = int(c["funds"][0]["amount"])
            n0, l0 = int(sb["total_native_token"]), int(sb["total_liquid_stake_token"])
            if l0 == 0 and n0 != 0:
                g.swept += n0
                if getattr(g, "ownerless_by_history", False):
                    # a staked total without any LST is "ownerless" only when the admin declared it so (ResumeContract);
                    # here ordinary operations produced it, and the sweep books as retained fees tokens that were
                    # already forwarded to the staker: the contract owes fees it never held
                    report(hist, "C02", "ownerless_sweep", {"variant": var},
                           "stake swept %d of staked total into total_fees; that total arose from ordinary operations while no LST "
                           "was outstanding, not from a ResumeContract: the contract now owes %d it never held" % (n0, n0), rec)
            mints = [m for m in msgs if m["k"] == "mint"]
            minted = mints[0]["coin"]["amount"] if mints else 0
            stake_tr = [m for m in msgs if m["k"] == "transfer" and m["coin"]["denom"] == D]
            g.fwd += sum(m["coin"]["amount"] for m in stake_tr)
            if len(stake_tr) != 1 or stake_tr[0]["coin"]["amount"] != paid or stake_tr[0]["receiver"] != staker:
                report(hist, "C01", "stake_forward", {"variant": var}, "stake does not forward exactly the paid amount to the staker", rec)
            # C03 delivery
            mt = c["msg"]["liquid_stake"].get("mint_to") or c["sender"]
            deliv_send = [m for m in msgs if m["k"] == "send" and any(x["denom"] == lst for x in m["coins"])]
            deliv_ibc = [m for m in msgs if m["k"] == "transfer" and m["coin"]["denom"] == lst]
            got = sum(x["amount"] for m in deliv_send for x in m["coins"] if x["denom"] == lst) + sum(m["coin"]["amount"] for m in deliv_ibc)
            rcpts = {m["to"] for m in deliv_send} | {m["receiver"] for m in deliv_ibc}
            if got != minted or rcpts != {mt} or len(deliv_send) + len(deliv_ibc) != 1:
                report(hist, "C03", "lst_delivery", {"variant": var, "branch": "native_recipient" if deliv_ibc else "protocol_recipient"},
                       "minted %d LST but delivered %d to %s" % (minted, got, sorted(rcpts)), rec)
            # the chain of the delivery: bank transfer for a protocol-chain recipient, IBC transfer
            # for a native-chain one; with equal prefixes the transfer_to_native_chain flag decides
            hrp = bech32.decode_hrp(mt)
            is_n = hrp == cfg(b)["native_chain_config"]["account_address_prefix"]
            is_p = hrp == cfg(b)["protocol_chain_config"]["account_address_prefix"]
            if is_n and is_p:
                is_n = bool(c["msg"]["liquid_stake"].get("transfer_to_native_chain"))
                is_p = not is_n
            if (is_p and not deliv_send) or (is_n and not deliv_ibc) or not (is_n or is_p):
                report(hist, "C03", "lst_delivery_chain", {"variant": var, "want": "protocol" if is_p else "native" if is_n else "none"},
                       "recipient %s (native=%s protocol=%s) but delivery by %s" % (mt, is_n, is_p, "bank send" if deliv_send else "IBC transfer"), rec)
            # C04: floor formula on the implementation's own totals
            nn = 0 if (l0 == 0 and n0 != 0) else n0
            want = paid if nn == 0 else l0 * paid // nn
            if minted != want:
                report(hist, "C04", "mint_floor", {"variant": var}, "minted %d, floor formula gives %d" % (minted, want), rec)
            if sa is not None and (int(sa["total_native_token"]) != nn + paid or int(sa["total_liquid_stake_token"]) != l0 + minted):
                report(hist, "C04", "stake_totals", {"variant": var}, "totals do not grow by (paid, minted)", rec)
            minstake = int(cfg(b)["protocol_chain_config"]["minimum_liquid_stake_amount"])
            exp = c["msg"]["liquid_stake"].get("expected_mint_amount")
            if paid < minstake or minted == 0 or (exp is not None and minted < int(exp)):
                report(hist, "C04", "stake_guards", {"variant": var}, "stake accepted below minimum / zero mint / below expected", rec)
        elif var == "receive_rewards":
            amt = sum(int(x["amount"]) for x in c["funds"] if x["denom"] == D)
            amt = int(next(x["amount"] for x in c["funds"] if x["denom"] == D))
            rate = int(cfg(b)["protocol_fee_config"]["dao_treasury_fee"])
            fee = rate * amt // 100000
            tr = [m for m in msgs if m["k"] == "transfer" and m["coin"]["denom"] == D]
            fwd = sum(m["coin"]["amount"] for m in tr)
            g.fwd += fwd
            tre = cfg(b)["protocol_fee_config"]["treasury_address"]
            pays = [m for m in msgs if m["k"] == "bank_send"]
            paid_t = sum(x["amount"] for m in pays for x in m["coins"])
            ok = (fwd == amt - fee and int(sa["total_native_token"]) == int(sb["total_native_token"]) + amt - fee
                  and int(sa["total_reward_amount"]) == int(sb["total_reward_amount"]) + amt)
            if tre is None:
                ok = ok and not pays and int(sa["total_fees"]) == int(sb["total_fees"]) + fee
                g.fee_accrued += fee
            else:
                ok = ok and paid_t == fee and all(m["to"] == tre for m in pays) and sa["total_fees"] == sb["total_fees"]
                if tre in a["ledger"]["bal"] and tre != su.contract:
                    got_t = int(a["ledger"]["bal"][tre].get(D, "0")) - int(b["ledger"]["bal"][tre].get(D, "0"))
                    if got_t != fee:
                        report(hist, "C11", "reward_split", {"variant": var, "treasury": True, "ledger": True},
                               "reward %d committed with fee %d; the treasury's balance changed by %d and the fee balance by %d" % (
                                   amt, fee, got_t, int(sa["total_fees"]) - int(sb["total_fees"])), rec)
            if int(sb["total_liquid_stake_token"]) == 0:
                report(hist, "C11", "reward_without_lst", {"variant": var},
                       "reward %d accepted while no LST exists (totals before: %s)" % (amt, sb), rec)
            if not ok:
                report(hist, "C11", "reward_split", {"variant": var, "treasury": tre is not None},
                       "reward %d fee %d: forwarded %d, treasury %d, totals %s -> %s" % (amt, fee, fwd, paid_t, sb, sa), rec)
        elif var == "submit_batch":
            pb = q(b, "pending")
            burns = [m for m in msgs if m["k"] == "burn"]
            n0, l0 = int(sb["total_native_token"]), int(sb["total_liquid_stake_token"])
            T = int(pb["batch_total_liquid_stake"])
            want = n0 * T // l0 if l0 else 0
            nb = next((x for x in batches(a) if x["id"] == pb["id"]), None)
            got = int(nb["expected_native_unstaked"]) if nb else -1
            g.set_aside += max(got, 0)
            if len(burns) != 1 or burns[0]["coin"]["amount"] != T or burns[0]["from"] != su.contract or burns[0]["coin"]["denom"] != lst:
                report(hist, "C03", "burn_exact", {"variant": var}, "submit does not burn exactly the batch total from the contract", rec)
            if got != want or int(sa["total_native_token"]) != n0 - want or int(sa["total_liquid_stake_token"]) != l0 - T:
                report(hist, "C04", "unbond_floor", {"variant": var}, "expected %d, floor formula %d; totals %s -> %s" % (got, want, sb, sa), rec)
        elif var == "withdraw":
            bid = c["msg"]["withdraw"]["batch_id"]
            bt = next((x for x in batches(b) if x["id"] == bid), None)
            reqs = [r for r in (b["contract"]["requests"].get(c["sender"], {}).get("ok") or []) if r["batch_id"] == bid]
            sends = [m for m in msgs if m["k"] == "send"]
            pay = sum(x["amount"] for m in sends for x in m["coins"] if x["denom"] == D)
            if bt is None or not reqs:
                report(hist, "C05", "withdraw_entitled", {"variant": var}, "withdraw succeeded without a request", rec)
            else:
                want = int(bt["received_native_unstaked"]) * int(reqs[0]["amount"]) // int(bt["batch_total_liquid_stake"])
                if pay != want or len(sends) != 1 or sends[0]["to"] != c["sender"] or bt["status"] != "received":
                    report(hist, "C05", "withdraw_prorata", {"variant": var}, "paid %d, pro-rata share is %d" % (pay, want), rec)
                after_reqs = [r for r in (a["contract"]["requests"].get(c["sender"], {}).get("ok") or []) if r["batch_id"] == bid]
                if after_reqs:
                    report(hist, "C05", "withdraw_once", {"variant": var}, "request survives its withdrawal", rec)
                    report(hist, "C17", "closed_request_listed", {"variant": var},
                           "UnstakeRequests(%s) still lists the request of batch %d that a committed Withdraw closed" % (c["sender"], bid), rec)
                g.paid[bid] = g.paid.get(bid, 0) + pay
                if g.paid[bid] > int(bt["received_native_unstaked"]):
                    report(hist, "C05", "payouts_bounded", {"variant": var}, "payouts of batch %d exceed what was received" % bid, rec)
        elif var == "liquid_unstake":
            # repeated unstakes accumulate into one request; the batch total grows by what was handed in
            amt = sum(int(x["amount"]) for x in c["funds"] if x["denom"] == lst)
            pb, pa = q(b, "pending"), q(a, "pending")
            if pb is not None and pa is not None and pb["id"] == pa["id"]:
                rb = [r for r in (b["contract"]["requests"].get(c["sender"], {}).get("ok") or []) if r["batch_id"] == pb["id"]]
                ra = [r for r in (a["contract"]["requests"].get(c["sender"], {}).get("ok") or []) if r["batch_id"] == pb["id"]]
                before_amt = int(rb[0]["amount"]) if rb else 0
                if c["sender"] in b["contract"]["requests"] and (len(ra) != 1 or int(ra[0]["amount"]) != before_amt + amt):
                    report(hist, "C05", "unstake_accumulates", {"variant": var},
                           "request of %s in batch %s was %d, %d LST were unstaked, the request is now %s" % (
                               c["sender"], pb["id"], before_amt, amt, [r["amount"] for r in ra]), rec)
                if int(pa["batch_total_liquid_stake"]) != int(pb["batch_total_liquid_stake"]) + amt:
                    report(hist, "C05", "batch_total_grows", {"variant": var}, "pending batch total %s -> %s for an unstake of %d" % (
                        pb["batch_total_liquid_stake"], pa["batch_total_liquid_stake"], amt), rec)
        elif var == "fee_withdraw":
            amt = int(c["msg"]["fee_withdraw"]["amount"])
            g.fee_withdrawn += amt
            sends = [m for m in msgs if m["k"] == "send"]
            tre = cfg(b)["protocol_fee_config"]["treasury_address"]
            if (amt > int(sb["total_fees"]) or len(sends) != 1 or sends[0]["to"] != tre
                    or sends[0]["coins"] != [{"denom": D, "amount": amt}] or int(sa["total_fees"]) != int(sb["total_fees"]) - amt):
                report(hist, "C11", "fee_withdraw", {"variant": var}, "fee withdrawal not bounded / not to the treasury", rec)
        elif var == "resume_contract":
            g.ownerless_by_history = False
            r = c["msg"]["resume_contract"]
            supply = int(a["ledger"]["supply"].get(lst, "0"))
            g.rebase_l = int(r["total_liquid_stake_token"]) - supply
            g.rebase_n = int(r["total_native_token"]) + g.set_aside + g.swept - g.fwd
        if (var != "resume_contract" and sa is not None and int(sa["total_liquid_stake_token"]) == 0
                and int(sa["total_native_token"]) != 0 and sa["total_native_token"] != sb["total_native_token"]):
            g.ownerless_by_history = True
        # self-sends are booked as donations (treasury / mint_to may be the contract itself)
        for m in msgs:
            if m["k"] in ("send", "bank_send") and m["to"] == su.contract:
                for x in m["coins"]:
                    g.donated[x["denom"]] = g.donated.get(x["denom"], 0) + x["amount"]
    if sa is None:
        return
    # --- the four ledger equations on the implementation's own answers ---
    N, L = int(sa["total_native_token"]), int(sa["total_liquid_stake_token"])
    if N + g.set_aside + g.swept != g.fwd + g.rebase_n:
        report(hist, "C01", "N1_accounting", {"eq": "N1"},
               "N=%d setAside=%d swept=%d fwd=%d rebase=%d" % (N, g.set_aside, g.swept, g.fwd, g.rebase_n), rec)
    supply = int(a["ledger"]["supply"].get(lst, "0"))
    if supply + g.rebase_l != L:
        report(hist, "C03", "L1_supply", {"eq": "L1"}, "supply %d + rebase %d != L %d" % (supply, g.rebase_l, L), rec)
    routing_stable = all(p["channel"] == cfg(a)["protocol_chain_config"]["ibc_channel_id"] for p in a["ledger"]["pkts"])
    forced = getattr(hist, "forced_used", False)
    if routing_stable and not forced and not getattr(hist, "rerouted", False):
        pend = q(a, "pending")
        own_x = bal(a, su.contract, lst)
        want_x = int(pend["batch_total_liquid_stake"]) + refundable(a, lst) + g.donated.get(lst, 0)
        if own_x != want_x:
            report(hist, "C03", "L2_custody", {"eq": "L2"}, "contract holds %d LST, owes %d" % (own_x, want_x), rec)
        own_d = bal(a, su.contract, D)
        owed = sum(int(x["received_native_unstaked"]) - g.paid.get(x["id"], 0) for x in batches(a) if x["status"] == "received")
        want_d = owed + int(sa["total_fees"]) + refundable(a, D) + g.donated.get(D, 0)
        if own_d + g.swept != want_d:
            report(hist, "C02", "N2_solvency", {"eq": "N2"},
                   "contract holds %d staked asset (+swept %d), owes %d" % (own_d, g.swept, want_d), rec)
        # J (the `JInv` of MW/Inv/WorldPayable.lean on the implementation's answers): per Received batch, what has been
        # paid out plus what the still-open requests are entitled to never exceeds what was received for it -- a payout
        # larger than its share is paid with tokens that back somebody else's claim
        open_claims = {}
        for u_, rq_ in a["contract"]["requests"].items():
            for x_ in (rq_.get("ok") or []):
                open_claims.setdefault(x_["batch_id"], []).append(int(x_["amount"]))
        for x in batches(a):
            if x["status"] != "received" or int(x["batch_total_liquid_stake"]) == 0:
                continue
            R_, T_ = int(x["received_native_unstaked"]), int(x["batch_total_liquid_stake"])
            due_ = sum(R_ * am // T_ for am in open_claims.get(x["id"], []))
            if g.paid.get(x["id"], 0) + due_ > R_:
                report(hist, "C02", "claims_covered", {"eq": "J"},
                       "batch %d received %d; %d was paid out and the open requests are entitled to %d more" % (
                           x["id"], R_, g.paid.get(x["id"], 0), due_), rec)
        # F1: everything ever forwarded toward the staker is in flight to it, delivered to it, or
        # refunded and still earmarked for it (C01 "located")
        stakers = getattr(hist, "stakers", None)
        if stakers is None:
            stakers = hist.stakers = set()
        stakers.add(cfg(a)["native_chain_config"]["staker_address"])
        if cfg(b) is not None:
            stakers.add(cfg(b)["native_chain_config"]["staker_address"])
        located = sum(int(p["coin"]["amount"]) for p in a["ledger"]["pkts"]
                      if p["sender"] == su.contract and p["coin"]["denom"] == D and p["state"] in ("pending", "delivered")
                      and p["receiver"] in stakers)
        located += sum(int(p["amount"]["amount"]) for p in inflight(a)
                       if p["amount"]["denom"] == D and p["status"] in ("ack_failure", "timed_out") and p["receiver"] in stakers)
        if located != g.fwd:
            report(hist, "C01", "F1_located", {"eq": "F1"},
                   "forwarded %d toward the staker, but only %d is in flight to it, delivered to it or earmarked for re-send to it" % (g.fwd, located), rec)
        # P2: packet coupling
        infl = {p["sequence"]: p for p in inflight(a)}
        for p in a["ledger"]["pkts"]:
            if p["sender"] != su.contract:
                continue
            e = infl.get(p["seq"])
            if p["state"] == "pending":
                if e is None or e["status"] != "sent" or e["amount"] != p["coin"] or e["receiver"] != p["receiver"]:
                    report(hist, "C07", "P2_tracking", {"state": "pending"}, "pending packet %d not tracked as sent: %s" % (p["seq"], e), rec)
            elif p["state"] == "delivered":
                if e is not None and e["status"] == "sent":
                    report(hist, "C07", "P2_tracking", {"state": "delivered"}, "delivered packet %d still tracked" % p["seq"], rec)
    rq = q(a, "reply_queue")
    if rq is not None and rq["ibc_queue"]:
        report(hist, "C07", "P1_reply_queue", {}, "reply queue not empty between transactions", rec)


def m_handler_level(hist, rec):
    """C04 on what the handler *returned*, even when the transaction was rolled back afterwards (the
    chain refuses e.g. a zero mint, so a handler that accepts one never shows in a committed state)"""
    c = first_exec(rec)
    b = rec["before"]
    if c is None or rec["committed"] or c["outcome"] != "ok" or b is None or cfg(b) is None or state(b) is None:
        return
    var = variant(c["msg"])
    if var != "liquid_stake":
        return
    sb = state(b)
    D = cfg(b)["protocol_chain_config"]["ibc_token_denom"]
    pay = [x for x in (c["funds"] or []) if x["denom"] == D]
    if len(pay) != 1:
        return
    paid = int(pay[0]["amount"])
    n0, l0 = int(sb["total_native_token"]), int(sb["total_liquid_stake_token"])
    mints = [m for m in c["msgs"] if m["k"] == "mint"]
    minted = mints[0]["coin"]["amount"] if mints else 0
    nn = 0 if (l0 == 0 and n0 != 0) else n0
    want = paid if nn == 0 else l0 * paid // nn
    if minted != want:
        report(hist, "C04", "mint_floor", {"variant": var, "rolled_back": True}, "handler minted %d, floor formula gives %d" % (minted, want), rec)
    minstake = int(cfg(b)["protocol_chain_config"]["minimum_liquid_stake_amount"])
    exp = c["msg"]["liquid_stake"].get("expected_mint_amount")
    if paid < minstake or minted == 0 or (exp is not None and minted < int(exp)):
        report(hist, "C04", "stake_guards", {"variant": var, "rolled_back": True},
               "handler accepted a stake of %d minting %d (minimum %d, expected %s) at totals %d/%d" % (paid, minted, minstake, exp, n0, l0), rec)


def m_lifecycle(hist, rec):
    """C06: B1 and the submit/receive conditions"""
    a, b = rec["after"], rec["before"]
    bs = batches(a)
    if not bs:
        return
    ids = [x["id"] for x in bs]
    pend = q(a, "pending")
    if ids != list(range(1, len(ids) + 1)) or pend is None or pend["id"] != ids[-1] or bs[-1]["status"] != "pending" \
            or any(x["status"] == "pending" for x in bs[:-1]):
        report(hist, "C06", "B1_shape", {}, "batch ids/status shape broken: %s" % [(x["id"], x["status"]) for x in bs], rec)
    if b is not None:
        order = {"pending": 0, "submitted": 1, "received": 2}
        old = {x["id"]: x for x in batches(b)}
        for x in bs:
            o = old.get(x["id"])
            if o is None:
                continue
            if order[x["status"]] < order[o["status"]] or order[x["status"]] > order[o["status"]] + 1:
                report(hist, "C06", "status_order", {}, "batch %d moved %s -> %s" % (x["id"], o["status"], x["status"]), rec)
            if o["status"] != "pending" and x["expected_native_unstaked"] != o["expected_native_unstaked"]:
                report(hist, "C06", "expected_immutable", {}, "expected amount of batch %d changed" % x["id"], rec)
    c = first_exec(rec)
    if c is None or b is None or cfg(b) is None:
        return
    var = variant(c["msg"])
    now_s = int(b["ledger"]["time"]) // 10 ** 9
    # (a message the deserializer refuses never reaches the handler: it says nothing about SubmitBatch)
    if var == "submit_batch" and not cfg(b)["stopped"] and c["outcome"] != "panic" and c["kind"] != "Parse":
        pb = q(b, "pending")
        sb = state(b)
        if pb is None or sb is None:
            return
        nonempty = pb["unstake_request_count"] > 0
        due = now_s >= int(pb["next_batch_action_time"]) // 10 ** 9
        enough = int(sb["total_liquid_stake_token"]) >= int(pb["batch_total_liquid_stake"])
        should = nonempty and due and enough
        did = c["outcome"] == "ok"
        if did != should:
            report(hist, "C06", "submit_iff", {"did": did}, "submit %s but nonempty=%s due=%s" % (c["outcome"], nonempty, due), rec)
        if rec["committed"]:
            na = next(x for x in batches(a) if x["id"] == pb["id"] + 1)
            oa = next(x for x in batches(a) if x["id"] == pb["id"])
            bp = cfg(b)["batch_period"]
            ub = cfg(b)["native_chain_config"]["unbonding_period"]
            if int(na["next_batch_action_time"]) != (now_s + bp) * 10 ** 9 or int(oa["next_batch_action_time"]) != (now_s + ub) * 10 ** 9 \
                    or oa["status"] != "submitted":
                report(hist, "C06", "submit_deadlines", {}, "deadlines after submit are wrong", rec)
    if var == "receive_unstaked_tokens" and rec["committed"]:
        bid = c["msg"]["receive_unstaked_tokens"]["batch_id"]
        ob = next((x for x in batches(b) if x["id"] == bid), None)
        want_sender = hist.su.hook_staker(cfg(b)["protocol_chain_config"]["ibc_channel_id"], cfg(b)["native_chain_config"]["staker_address"])
        D = cfg(b)["protocol_chain_config"]["ibc_token_denom"]
        if (ob is None or ob["status"] != "submitted" or now_s < int(ob["next_batch_action_time"]) // 10 ** 9
                or c["sender"] != want_sender or not any(x["denom"] == D for x in c["funds"])):
            report(hist, "C06", "receive_guard", {}, "batch became received outside the allowed conditions", rec)


def m_auth(hist, rec):
    """C08 / C10 / C12 on every committed transaction"""
    c = first_exec(rec)
    b, a = rec["before"], rec["after"]
    if c is None or b is None or cfg(b) is None:
        return
    var = variant(c["msg"])
    admin = b["contract"]["admin"]
    ok = c["outcome"] == "ok"
    su = hist.su
    if ok and var in ADMIN_ONLY and c["sender"] != admin:
        report(hist, "C08", "admin_only", {"variant": var}, "%s succeeded for non-admin %s" % (var, c["sender"]), rec)
    if ok and var == "recover_pending_ibc_transfers" and c["msg"][var].get("selected_packets") is not None and c["sender"] != admin:
        report(hist, "C08", "admin_only", {"variant": "forced_recover"}, "forced recovery by non-admin", rec)
    # the monitor list as the history of accepted configurations defines it (not the contract's own record)
    mons = getattr(hist, "monitor_list", None)
    if mons is None:
        mons = list(su.monitors)
    if ok and rec["committed"] and var == "update_config" and c["msg"][var].get("monitors") is not None:
        mons = list(c["msg"][var]["monitors"])
    hist.monitor_list = mons
    if ok and var == "circuit_breaker" and c["sender"] != admin and (c["sender"] not in cfg(b)["monitors"] or c["sender"] not in mons):
        report(hist, "C08", "breaker_auth", {"variant": var}, "circuit breaker by %s, who is neither the admin nor a monitor (monitors configured: %s)" % (c["sender"], mons), rec)
    # C10 "halting by the admin or any monitor": a CircuitBreaker from the admin or from an account on the monitor list (by
    # the contract's own record and by the history of accepted updates alike) is not refused
    if var == "circuit_breaker" and c["outcome"] == "err" and not c["funds"] and c["msg"] == {"circuit_breaker": {}} and c["kind"] != "Parse" and (
            c["sender"] == admin or (c["sender"] in cfg(b)["monitors"] and c["sender"] in mons)):
        report(hist, "C10", "breaker_available", {"who": "admin" if c["sender"] == admin else "monitor"},
               "CircuitBreaker by %s (%s) was refused: %s" % (c["sender"], "the admin" if c["sender"] == admin else "a configured monitor", c["kind"]), rec)
    nominated = getattr(hist, "last_nomination", None)      # by the history, not by the contract's own record
    if ok and var == "accept_ownership" and (c["sender"] != b["contract"]["pending_owner"] or nominated is None or nominated[1] != c["sender"]):
        report(hist, "C08", "accept_auth", {"variant": var},
               "AcceptOwnership succeeded for %s; the standing nomination is %s" % (c["sender"], nominated[1] if nominated else "none (never made, revoked or consumed)"), rec)
    pc, nc = cfg(b)["protocol_chain_config"], cfg(b)["native_chain_config"]
    if ok and var == "receive_rewards" and c["sender"] != su.hook_staker(pc["ibc_channel_id"], nc["reward_collector_address"]):
        report(hist, "C08", "hook_auth", {"variant": var}, "rewards accepted from %s" % c["sender"], rec)
    if ok and var == "receive_unstaked_tokens" and c["sender"] != su.hook_staker(pc["ibc_channel_id"], nc["staker_address"]):
        report(hist, "C08", "hook_auth", {"variant": var}, "unstaked tokens accepted from %s" % c["sender"], rec)
    # C09: the accepted cross-chain sender is exactly the ibc-hooks account derived (independent Python
    # implementation: hashlib + reference bech32) from the channel, native address and protocol prefix the
    # contract is configured with at the time of the call
    for v_, role in (("receive_rewards", "reward_collector_address"), ("receive_unstaked_tokens", "staker_address")):
        if ok and var == v_:
            want = bech32.hook_account(pc["ibc_channel_id"], nc[role], pc["account_address_prefix"])
            if c["sender"] != want:
                report(hist, "C09", "hook_derivation", {"variant": var},
                       "%s accepted from %s; the configuration (%s, %s, prefix %s) derives %s" % (
                           var, c["sender"], pc["ibc_channel_id"], nc[role], pc["account_address_prefix"], want), rec)
    # ... and the account the configuration derives is not turned away as unauthorized
    if var in ("receive_rewards", "receive_unstaked_tokens") and c["outcome"] == "err" and c["kind"] == "Unauthorized":
        role = "reward_collector_address" if var == "receive_rewards" else "staker_address"
        if c["sender"] == bech32.hook_account(pc["ibc_channel_id"], nc[role], pc["account_address_prefix"]):
            report(hist, "C09", "hook_derivation", {"variant": var, "refused": True},
                   "%s from the ibc-hooks account of the configured channel and address was refused as unauthorized" % var, rec)
    # a message variant outside the modelled interface (the source declares one the authorization matrix, the halted
    # list and the panic-freedom theorems do not speak about): any success is reported against the properties whose
    # statements quantify over "every message"
    from .iface import KNOWN_EXEC
    if c["entry"] == "execute" and var not in KNOWN_EXEC and isinstance(c["msg"], dict) and len(c["msg"]) == 1 and c["outcome"] == "ok":
        if c["sender"] != admin:
            report(hist, "C08", "unknown_message", {"variant": var},
                   "message %s, which the authorization matrix does not list, succeeded for %s (not the admin)" % (var, c["sender"]), rec)
        if rec["committed"] and a is not None:
            # C05 / C02: whatever a message outside the model pays its sender in the staked asset must be what the
            # requests it consumed entitle the sender to (floor(received x own / total) each, once)
            D_ = cfg(b)["protocol_chain_config"]["ibc_token_denom"]
            paid_ = sum(x["amount"] for m in c["msgs"] if m["k"] in ("send", "bank_send") and m.get("to") == c["sender"]
                        for x in m["coins"] if x["denom"] == D_)
            rb = {x["batch_id"]: int(x["amount"]) for x in (b["contract"]["requests"].get(c["sender"], {}).get("ok") or [])}
            ra = {x["batch_id"]: int(x["amount"]) for x in (a["contract"]["requests"].get(c["sender"], {}).get("ok") or [])}
            bt = {x["id"]: x for x in batches(b)}
            due = 0
            for bid, amt_ in rb.items():
                if bid not in ra and bid in bt and bt[bid]["status"] == "received" and int(bt[bid]["batch_total_liquid_stake"]) > 0:
                    due += int(bt[bid]["received_native_unstaked"]) * amt_ // int(bt[bid]["batch_total_liquid_stake"])
            if paid_ != due:
                report(hist, "C05", "unknown_payout", {"variant": var},
                       "message %s paid its sender %d of the staked asset; the requests it consumed entitle the sender to %d" % (var, paid_, due), rec)
        if getattr(hist, "halted_by_history", True) and rec["committed"] and a is not None and (
                state(a) != state(b) or a["ledger"]["bal"].get(su.contract) != b["ledger"]["bal"].get(su.contract)):
            report(hist, "C10", "unknown_message", {"variant": var},
                   "message %s changed totals or balances while the contract was halted" % var, rec)
    # C10
    if cfg(b)["stopped"] and var in HALTED_VARIANTS and c["outcome"] != "err":
        report(hist, "C10", "halted_blocks", {"variant": var, "outcome": c["outcome"]}, "%s did not fail while halted" % var, rec)
    # the halted state as the *history* defines it (a new contract is halted; a committed CircuitBreaker halts, a
    # committed ResumeContract resumes; nothing else does), not as the contract's own flag reports it
    halted_h = getattr(hist, "halted_by_history", True)
    if halted_h and var in HALTED_VARIANTS and c["outcome"] != "err":
        report(hist, "C10", "halted_blocks", {"variant": var, "outcome": c["outcome"], "by": "history"},
               "%s did not fail although the contract was halted (at start or by CircuitBreaker) and never resumed" % var, rec)
    if rec["committed"] and a is not None and cfg(a) is not None and cfg(a)["stopped"] != cfg(b)["stopped"] \
            and var not in ("circuit_breaker", "resume_contract"):
        report(hist, "C10", "flag_frame", {"variant": var}, "%s changed the halted flag from %s to %s" % (var, cfg(b)["stopped"], cfg(a)["stopped"]), rec)
    if ok and rec["committed"] and var == "circuit_breaker":
        hist.halted_by_history = True
    if ok and rec["committed"] and var == "resume_contract":
        hist.halted_by_history = False
    if ok and var == "circuit_breaker":
        ca, cb = dict(cfg(a)), dict(cfg(b))
        ca.pop("stopped"), cb.pop("stopped")
        if not cfg(a)["stopped"] or ca != cb or state(a) != state(b) or batches(a) != batches(b):
            report(hist, "C10", "breaker_frame", {}, "circuit breaker changed more than the flag", rec)
    if ok and var == "resume_contract" and c["sender"] != admin:
        report(hist, "C10", "resume_auth", {"variant": var}, "ResumeContract succeeded for %s, who is not the admin" % c["sender"], rec)
    if ok and var == "resume_contract" and state(a) is not None and state(b) is not None:
        r = c["msg"][var]
        sa, sb = state(a), state(b)
        if (cfg(a)["stopped"] or sa["total_native_token"] != str(int(r["total_native_token"]))
                or sa["total_liquid_stake_token"] != str(int(r["total_liquid_stake_token"]))
                or sa["total_reward_amount"] != str(int(r["total_reward_amount"])) or sa["total_fees"] != sb["total_fees"]
                or batches(a) != batches(b)):
            report(hist, "C10", "resume_exact", {}, "resume did not set exactly the supplied totals", rec)
    # C12
    if ok and var in ("transfer_ownership", "revoke_ownership_transfer") and c["sender"] != admin:
        report(hist, "C12", "nomination_by_admin", {"variant": var}, "%s succeeded for %s, who is not the admin" % (var, c["sender"]), rec)
    if a["contract"]["admin"] != admin:
        t_now = int(b["ledger"]["time"]) // 10 ** 9
        mt = b["contract"]["owner_min_time"]
        nominated = getattr(hist, "last_nomination", None)
        good = (var == "accept_ownership" and ok and c["sender"] == b["contract"]["pending_owner"]
                and a["contract"]["admin"] == c["sender"] and mt is not None and int(mt) // 10 ** 9 <= t_now
                and nominated is not None and t_now >= nominated[0] + 7 * 86400 and nominated[1] == c["sender"])
        if not good:
            report(hist, "C12", "admin_change", {"variant": var}, "admin changed outside the two-step seven-day protocol", rec)
    if ok and var == "transfer_ownership":
        hist.last_nomination = (int(b["ledger"]["time"]) // 10 ** 9, c["msg"][var]["new_owner"])
    if ok and var in ("revoke_ownership_transfer", "accept_ownership"):
        hist.last_nomination = None
        if a["contract"]["pending_owner"] is not None:
            report(hist, "C12", "nomination_consumed", {"variant": var}, "nomination survives %s" % var, rec)


def m_submission_burn(hist, rec):
    """C19 / C03: whatever message makes a batch Submitted, the same committed transaction carries the token-factory burn
    of exactly that batch's total by the contract (a submission folded into another handler included)"""
    b, a = rec["before"], rec["after"]
    if b is None or a is None or not rec["committed"] or cfg(a) is None:
        return
    bb = {x["id"]: x for x in batches(b)}
    lst = cfg(a)["liquid_stake_token_denom"]
    burns = [m for c in rec["calls"] for m in (c.get("msgs") or []) if m.get("k") == "burn" and m["coin"]["denom"] == lst]
    burnt = sum(m["coin"]["amount"] for m in burns)
    newly = [x for x in batches(a) if x["status"] == "submitted" and bb.get(x["id"], {}).get("status") == "pending"]
    want = sum(int(x["batch_total_liquid_stake"]) for x in newly)
    if newly and burnt != want:
        c = first_exec(rec)
        var = variant(c["msg"]) if c else "?"
        for prop_, mon in (("C19", "burn_message"), ("C03", "burn_exact")):
            report(hist, prop_, mon, {"variant": var, "via": "status_change"},
                   "batch(es) %s became Submitted (total %d LST) in a %s transaction that burns %d" % ([x["id"] for x in newly], want, var, burnt), rec)


def m_tracking(hist, rec):
    """C07 (and the delivery half of C03), independent of the routing clauses of the ledger equations: every transfer a
    committed transaction submitted is recorded under the sequence the chain assigned, with its own amount and
    receiver; and a transaction whose transfer could not be submitted does not commit"""
    a = rec["after"]
    if a is None or cfg(a) is None:
        return
    calls = rec["calls"]
    by_id = {}
    for c in calls:
        for m in c.get("msgs") or []:
            if m.get("k") == "transfer":
                by_id[m["id"]] = m
    queue = {p["sequence"]: p for p in inflight(a)}
    lst = cfg(a)["liquid_stake_token_denom"]
    for c in calls:
        if c["entry"] != "reply" or not rec["committed"]:
            continue
        rin = c.get("result_in") or {}
        if "ok" in rin and c["outcome"] == "ok":
            m = by_id.get(c.get("id"))
            e = queue.get(rin["ok"])
            if m is None:
                continue
            want = (str(m["coin"]["amount"]), m["coin"]["denom"], m["receiver"])
            got = None if e is None else (str(e["amount"]["amount"]), e["amount"]["denom"], e["receiver"])
            if e is None or got != want or e["status"] != "sent":
                report(hist, "C07", "tracked_after_reply", {"have": e is not None},
                       "transfer of %s %s to %s got sequence %s; the queue records %s" % (want[0], want[1], want[2], rin["ok"], e), rec)
                if m["coin"]["denom"] == lst:
                    report(hist, "C03", "delivery_tracked", {"have": e is not None},
                           "the LST delivery of %s to %s (sequence %s) is recorded as %s: a failed delivery cannot be re-sent to its recipient" % (
                               want[0], want[2], rin["ok"], e), rec)
        if "err" in rin:
            report(hist, "C07", "rollback_on_failed_submit", {"outcome": c["outcome"]},
                   "a transfer could not be submitted (reply %s with an error) and the transaction committed all the same" % c.get("id"), rec)


def m_flags(hist, rec):
    """bookkeeping that other monitors rely on (must run first): forced recoveries that re-send an
    in-flight packet or name an id twice void the coupling assumptions of C01/C02/C07-P2"""
    c = first_exec(rec)
    b = rec["before"]
    if c is None or b is None or c["outcome"] != "ok":
        return
    var = variant(c["msg"])
    if var == "recover_pending_ibc_transfers" and c["msg"][var].get("selected_packets") is not None:
        sel = c["msg"][var]["selected_packets"]
        sent = {p["sequence"] for p in inflight(b) if p["status"] == "sent"}
        if len(set(sel)) != len(sel):
            tr = [m for m in c["msgs"] if m["k"] == "transfer"]
            by = {p["sequence"]: int(p["amount"]["amount"]) for p in inflight(b)}
            if tr and tr[0]["coin"]["amount"] != sum(by[x] for x in set(sel)):
                report(hist, "C07", "recover_once", {"branch": "forced_duplicate"},
                       "forced recovery with a repeated id re-sends %d instead of %d" % (tr[0]["coin"]["amount"], sum(by[x] for x in set(sel))), rec)
        if set(sel) & sent:
            hist.forced_used = True       # a packet still in flight was re-sent: the coupling with the chain's packets is void
        # (an id named twice is harmless: the contract re-sends each selected packet once, `forced_ids_once`)
    # the operator re-routed the channel or changed the staked-asset denom: callbacks of packets sent
    # before are ignored by the contract from then on, so the ledger equations (which assume the
    # honest-operator clause "routing is stable") are not evaluated for the rest of the history --
    # also after the operator switches back
    a = rec["after"]
    if var == "update_config" and a is not None and cfg(a) is not None and cfg(b) is not None:
        pa, pb = cfg(a)["protocol_chain_config"], cfg(b)["protocol_chain_config"]
        if pa["ibc_channel_id"] != pb["ibc_channel_id"] or pa["ibc_token_denom"] != pb["ibc_token_denom"]:
            hist.rerouted = True


def m_recover(hist, rec):
    """C07: an unforced recovery re-sends exactly the refundable packets of one receiver/denom"""
    c = first_exec(rec)
    b, a = rec["before"], rec["after"]
    if c is None or b is None or not rec["committed"]:
        return
    var = variant(c["msg"])
    if var != "recover_pending_ibc_transfers":
        return
    m = c["msg"][var]
    tr = [x for x in c["msgs"] if x["k"] == "transfer"]
    if len(tr) != 1:
        report(hist, "C07", "recover_spec", {"branch": "count"}, "recovery emitted %d transfers" % len(tr), rec)
        return
    t = tr[0]
    recv = m.get("receiver") or cfg(b)["native_chain_config"]["staker_address"]
    before = inflight(b)
    after_ids = {p["sequence"] for p in inflight(a)}
    if m.get("selected_packets") is None:
        elig = [p for p in before if p["receiver"] == recv and p["status"] in ("ack_failure", "timed_out")]
        if m.get("paginated"):
            elig = elig[:10]
        want = sum(int(p["amount"]["amount"]) for p in elig)
        denoms = {p["amount"]["denom"] for p in elig}
        # each re-sent packet is gone afterwards -- unless the new transfer was assigned the very sequence number of one
        # of them (possible after the counterparty re-numbered the channel): then that key holds the new, Sent, packet
        after_by = {p["sequence"]: p for p in inflight(a)}
        gone = all(p["sequence"] not in after_ids
                   or (after_by[p["sequence"]]["status"] == "sent" and int(after_by[p["sequence"]]["amount"]["amount"]) == want)
                   for p in elig)
        if (t["coin"]["amount"] != want or t["receiver"] != recv or denoms != {t["coin"]["denom"]} or not gone
                or any(p["status"] == "sent" for p in elig)):
            report(hist, "C07", "recover_spec", {"branch": "unforced"},
                   "recovery re-sent %d %s to %s; refundable packets sum to %d" % (t["coin"]["amount"], t["coin"]["denom"], t["receiver"], want), rec)
    else:
        # forced: the selected packets (each once) all belong to the receiver the amount is re-sent to, in one denom
        by = {p["sequence"]: p for p in before}
        picked = [by[x] for x in sorted(set(m["selected_packets"])) if x in by]
        if picked:
            want = sum(int(p["amount"]["amount"]) for p in picked)
            rcvs = {p["receiver"] for p in picked}
            denoms = {p["amount"]["denom"] for p in picked}
            if rcvs != {t["receiver"]} or denoms != {t["coin"]["denom"]} or t["coin"]["amount"] != want:
                report(hist, "C07", "recover_spec", {"branch": "forced"},
                       "forced recovery of packets of %s (%d %s) re-sent %d %s to %s" % (
                           sorted(rcvs), want, sorted(denoms), t["coin"]["amount"], t["coin"]["denom"], t["receiver"]), rec)
    sa, sb = state(a), state(b)
    if sa is not None and sb is not None and (sa["total_native_token"], sa["total_liquid_stake_token"], sa["total_fees"]) != (
            sb["total_native_token"], sb["total_liquid_stake_token"], sb["total_fees"]):
        report(hist, "C07", "recover_frame", {}, "recovery changed the accounting totals", rec)


def m_transfer_shape(hist, rec):
    """C07: every MsgTransfer is a reply-always sub-message with the callback memo and timeout"""
    b = rec["before"]
    if b is None or cfg(b) is None:
        return
    su = hist.su
    for c in rec["calls"]:
        if c["outcome"] != "ok":
            continue
        ids = [m["id"] for m in c["msgs"] if m["k"] == "transfer"]
        if len(ids) != len(set(ids)):
            report(hist, "C07", "transfer_shape", {"branch": "ids"}, "reply ids not unique in one response", rec)
        for m in c["msgs"]:
            if m["k"] != "transfer":
                continue
            want_to = int(b["ledger"]["time"]) + 1000000000000
            if (m["reply_on"] != "always" or m["port"] != "transfer" or m["sender"] != su.contract
                    or m["channel"] != cfg(b)["protocol_chain_config"]["ibc_channel_id"]
                    or m["memo"] != '{"ibc_callback":"%s"}' % su.contract or m["timeout"] != want_to or m["timeout_height"]):
                report(hist, "C07", "transfer_shape", {"branch": "fields"}, "malformed MsgTransfer %s" % m, rec)


def wellformed_problems(c, chain_prefix):
    """independent statement of C14's well-formedness for an accepted configuration"""
    import re
    from . import refbech32
    probs = []
    nc, pc, fc = c["native_chain_config"], c["protocol_chain_config"], c["protocol_fee_config"]

    def pref_ok(p):
        return 1 <= len(p.encode()) <= 83 and all(33 <= b <= 126 for b in p.encode()) and p == p.lower()

    def addr_ok(a, p):
        d = refbech32.decode_any(a)
        return d is not None and d[0] == p
    for name, p in (("native account prefix", nc["account_address_prefix"]), ("validator prefix", nc["validator_address_prefix"]),
                    ("protocol account prefix", pc["account_address_prefix"])):
        if not pref_ok(p):
            probs.append("%s %r is not a valid lower-case bech32 prefix" % (name, p))
    for a in nc["validators"]:
        if not addr_ok(a, nc["validator_address_prefix"]):
            probs.append("validator %r not valid under its prefix" % a)
    if len(set(nc["validators"])) != len(nc["validators"]):
        probs.append("validator listed twice")
    for k in ("staker_address", "reward_collector_address"):
        if not addr_ok(nc[k], nc["account_address_prefix"]):
            probs.append("%s %r not valid under the native prefix" % (k, nc[k]))
    if pc.get("oracle_address") is not None and not addr_ok(pc["oracle_address"], pc["account_address_prefix"]):
        probs.append("oracle address %r not valid under the protocol prefix" % pc["oracle_address"])
    if fc.get("treasury_address") is not None and not addr_ok(fc["treasury_address"], pc["account_address_prefix"]):
        probs.append("treasury address %r not valid under the protocol prefix" % fc["treasury_address"])
    for a in c["monitors"]:
        if not addr_ok(a, pc["account_address_prefix"]):
            probs.append("monitor %r not valid under the protocol prefix" % a)
    if len(set(c["monitors"])) != len(c["monitors"]):
        probs.append("monitor listed twice")
    if not re.fullmatch(r"channel-[0-9]+", pc["ibc_channel_id"]):
        probs.append("channel id %r is not channel-<n>" % pc["ibc_channel_id"])
    d = pc["ibc_token_denom"]
    if not (d.startswith("ibc/") and len(d[4:].encode()) == 64):
        probs.append("staked denom %r is not ibc/ + 64 characters" % d)
    if not re.fullmatch(r"[A-Za-z]{4,}", nc["token_denom"]):
        probs.append("token denom %r not alphabetic" % nc["token_denom"])
    return probs


def m_config(hist, rec):
    """C14: a section accepted by instantiate / UpdateConfig is well-formed; updates are sectional"""
    c = first_exec(rec)
    a, b = rec["after"], rec["before"]
    if c is None or not rec["committed"] or b is None or cfg(b) is None:
        return
    var = variant(c["msg"])
    ca, cb = cfg(a), cfg(b)
    if var == "update_config":
        m = c["msg"][var]
        secs = {"native_chain_config": "native_chain_config", "protocol_chain_config": "protocol_chain_config",
                "protocol_fee_config": "protocol_fee_config", "monitors": "monitors", "batch_period": "batch_period"}
        for k, ck in secs.items():
            if m.get(k) is None and ca[ck] != cb[ck]:
                report(hist, "C14", "sectional", {"section": k}, "section %s changed without being supplied" % k, rec)
        # ... and a supplied section is replaced by exactly what was supplied
        def norm(x):
            if isinstance(x, bool) or x is None:
                return x
            if isinstance(x, int):
                return str(x)
            if isinstance(x, list):
                return [norm(y) for y in x]
            if isinstance(x, dict):
                return {kk: norm(vv) for kk, vv in x.items()}
            return x
        for k, ck in secs.items():
            if m.get(k) is None:
                continue
            want, got = norm(m[k]), norm(ca[ck])
            if isinstance(want, dict):
                # bech32 allows an all-upper-case spelling; the contract stores the prefix it validated, in lower case
                for pk in ("account_address_prefix", "validator_address_prefix"):
                    if isinstance(want.get(pk), str) and want[pk].isupper():
                        want[pk] = want[pk].lower()
            if isinstance(want, dict) and isinstance(got, dict):
                bad = [kk for kk in want if kk in got and want[kk] != got[kk]]
            else:
                bad = [] if want == got else [k]
            if bad:
                report(hist, "C14", "sectional", {"section": k, "kept": True},
                       "section %s was supplied as %s but the configuration now holds %s (fields %s)" % (k, str(m[k])[:200], str(ca[ck])[:200], bad), rec)
        if ca["liquid_stake_token_denom"] != cb["liquid_stake_token_denom"] or ca["stopped"] != cb["stopped"]:
            report(hist, "C14", "sectional", {"section": "denom_or_stopped"}, "UpdateConfig altered the LST denom or the halted flag", rec)
        chk = dict(ca)
        # only supplied sections are required to be well-formed by this update
        probs = wellformed_problems(ca, hist.su.chain_prefix)
        supplied = [k for k in secs if m.get(k) is not None]
        relevant = []
        for pmsg in probs:
            if ("channel" in pmsg or "staked denom" in pmsg or "protocol account" in pmsg) and "protocol_chain_config" in supplied:
                relevant.append(pmsg)
            if "oracle" in pmsg and "protocol_chain_config" in supplied:
                relevant.append(pmsg)
            if "treasury" in pmsg and "protocol_fee_config" in supplied:
                relevant.append(pmsg)
            if "monitor" in pmsg and "monitors" in supplied:
                relevant.append(pmsg)
            if ("validator" in pmsg or "staker" in pmsg or "reward" in pmsg or "native account" in pmsg or "token denom" in pmsg) and "native_chain_config" in supplied:
                relevant.append(pmsg)
        _ = chk
        for pmsg in relevant:
            report(hist, "C14", "wellformed", {"what": pmsg.split(" ")[0]}, "accepted configuration is malformed: " + pmsg, rec)
        if m.get("monitors") is not None:
            ms = ca["monitors"]
            if len(set(ms)) != len(ms):
                report(hist, "C14", "wellformed", {"what": "monitors"}, "monitor listed twice", rec)
    if var in ("add_validator", "remove_validator"):
        va, vb = ca["native_chain_config"]["validators"], cb["native_chain_config"]["validators"]
        name = c["msg"][var].get("new_validator") or c["msg"][var].get("validator")
        if var == "add_validator" and (va != vb + [name] or name in vb):
            report(hist, "C14", "validator_change", {"variant": var}, "add_validator did not append exactly the named validator", rec)
        if var == "remove_validator" and (name not in vb or sorted(va + [name]) != sorted(vb)):
            report(hist, "C14", "validator_change", {"variant": var}, "remove_validator did not remove exactly the named validator", rec)
        x, y = dict(ca), dict(cb)
        x["native_chain_config"] = dict(x["native_chain_config"], validators=None)
        y["native_chain_config"] = dict(y["native_chain_config"], validators=None)
        if x != y:
            report(hist, "C14", "validator_change", {"variant": var, "frame": True}, "validator change altered other configuration", rec)


def m_boot_messages(hist):
    """C19 on what instantiate *returned* (whether or not the chain then accepted the transaction)"""
    try:
        from .implworld import decode_msg
        from .procs import canon_msgs, outcome
        mod = "/osmosis.tokenfactory.v1beta1." if hist.build == "osmosis" else "/miniwasm.tokenfactory.v1."
        for call in hist.boot_tx["calls"]:
            r = call["result"]
            if outcome(r) != "ok" or call.get("entry") not in (None, "instantiate"):
                continue
            msgs = [decode_msg(m) for m in (r["ok"]["msgs"] if "msgs" in r["ok"] else canon_msgs(r["ok"]))]
            tf = [m for m in msgs if m["k"] in ("mint", "burn", "create_denom")]
            if not (len(tf) == 1 and tf[0]["k"] == "create_denom" and tf[0]["url"] == mod + "MsgCreateDenom"
                    and tf[0]["sender"] == hist.su.contract and tf[0]["sub"] == hist.su.sub) or len(msgs) != 1:
                hist.findings.append({"property": "C19", "monitor": "create_denom_message", "signature": {"build": hist.build},
                                      "what": "instantiate does not emit exactly one %sMsgCreateDenom for %r by the contract: %s" % (mod, hist.su.sub, msgs),
                                      "upto": len(hist.events), "event": hist.events[0]})
    except (KeyError, TypeError):
        pass


def m_boot_config(hist):
    """C14 on the configuration accepted by instantiate"""
    c = cfg(hist.dump)
    if c is None:
        return
    for pmsg in wellformed_problems(c, hist.su.chain_prefix):
        hist.findings.append({"property": "C14", "monitor": "wellformed", "signature": {"what": pmsg.split(" ")[0]},
                              "what": "configuration accepted at instantiation is malformed: " + pmsg,
                              "upto": len(hist.events), "event": hist.events[0]})
    if not c["stopped"]:
        hist.findings.append({"property": "C10", "monitor": "boot_halted", "signature": {}, "what": "new contract is not halted",
                              "upto": len(hist.events), "event": hist.events[0]})


def m_tokenfactory(hist, rec):
    """C19: each stake mints and each submission burns exactly once, through the target chain's
    token-factory module, with the contract as sender and holder, the factory denom and the exact amount"""
    b, a = rec["before"], rec["after"]
    if b is None or cfg(b) is None:
        return
    su = hist.su
    mod = "/osmosis.tokenfactory.v1beta1." if hist.build == "osmosis" else "/miniwasm.tokenfactory.v1."
    lst = "factory/%s/%s" % (su.contract, su.sub)
    for c in rec["calls"]:
        if c["outcome"] != "ok" or c.get("entry") != "execute":
            continue
        var = variant(c["msg"])
        tf = [m for m in c["msgs"] if m["k"] in ("mint", "burn", "create_denom")]
        for m in c["msgs"]:
            if m["k"] == "undecodable":
                report(hist, "C19" if "tokenfactory" in m["type_url"] else "C16", "undecodable_message", {"variant": var, "build": hist.build, "url": m["type_url"]},
                       "%s emits %s whose bytes are not protobuf (%s): %s" % (var, m["type_url"], m["error"], m["hex"][:80]), rec)
        sb, sa = state(b), state(a)
        if var == "liquid_stake":
            want = None
            if sb is not None:
                n0, l0 = int(sb["total_native_token"]), int(sb["total_liquid_stake_token"])
                paid = int(c["funds"][0]["amount"]) if c["funds"] else 0
                nn = 0 if (l0 == 0 and n0 != 0) else n0
                want = paid if nn == 0 else l0 * paid // nn
            good = (len(tf) == 1 and tf[0]["k"] == "mint" and tf[0]["url"] == mod + "MsgMint" and tf[0]["sender"] == su.contract
                    and tf[0]["to"] == su.contract and tf[0]["coin"]["denom"] == lst
                    and (want is None or tf[0]["coin"]["amount"] == want))
            if good and rec["committed"] and sa is not None and sb is not None:
                good = int(sa["total_liquid_stake_token"]) - int(sb["total_liquid_stake_token"]) == tf[0]["coin"]["amount"]
            if not good:
                report(hist, "C19", "mint_message", {"variant": var, "build": hist.build},
                       "stake does not emit exactly one %sMsgMint of the exact amount (%s) by and to the contract: %s" % (mod, want, tf), rec)
        elif var == "submit_batch":
            pb = q(b, "pending")
            T = int(pb["batch_total_liquid_stake"]) if pb else None
            good = (len(tf) == 1 and tf[0]["k"] == "burn" and tf[0]["url"] == mod + "MsgBurn" and tf[0]["sender"] == su.contract
                    and tf[0]["from"] == su.contract and tf[0]["coin"]["denom"] == lst and (T is None or tf[0]["coin"]["amount"] == T))
            if not good:
                report(hist, "C19", "burn_message", {"variant": var, "build": hist.build},
                       "submission does not emit exactly one %sMsgBurn of the batch total (%s) by and from the contract: %s" % (mod, T, tf), rec)
        elif tf:
            report(hist, "C19", "stray_tokenfactory", {"variant": var, "build": hist.build}, "%s emits token-factory messages %s" % (var, tf), rec)


ALL = [m_flags, m_tokenfactory, m_config, m_no_panic, m_oracle, m_ledgers, m_handler_level, m_lifecycle, m_auth, m_recover, m_transfer_shape, m_tracking, m_submission_burn]
