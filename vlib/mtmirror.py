"""Reference-chain mirror: every event of a model-led history is executed a second time by the real contract
inside cw-multi-test's WasmKeeper / BankKeeper (harness module `mt.rs`), and what that chain did is compared
with what the Lean chain model (`MW/Chain/World.lean`) did:

  chain.committed   the transaction committed / was rolled back
  chain.calls       entry points called by the chain: number, order, arguments (sender, funds, message, reply id,
                    reply payload) and the result class of each
  chain.ledger.*    bank balances of every tracked account, token-factory supply, packet list, next sequence,
                    remote credits, clock
  chain.state.*     the contract's query answers afterwards (same dump the correspondence compares)

The Lean chain model is an *assumption* in the trusted base of the world-level theorems (C01 C02 C03 C05 C07 C08
C10 C11); this comparison ties its transaction / sub-message / reply / rollback and bank clauses to code written
by the CosmWasm maintainers.  A mismatch is reported as a divergence on a `chain.*` channel."""
from .procs import Harness, canon_msgs, err_kind, outcome


class MtMismatch(Exception):
    def __init__(self, channel, detail):
        super().__init__(channel)
        self.channel = channel
        self.detail = detail


def _args(c):
    e = c["entry"]
    if e in ("execute", "instantiate"):
        return (e, c.get("sender"), [(x["denom"], str(x["amount"])) for x in (c.get("funds") or [])], c.get("msg"))
    if e == "reply":
        ri = c.get("result_in") or {}
        key = next(iter(ri), None)
        return (e, c.get("id"), key, ri.get("ok") if key == "ok" else None)
    return (e, c.get("msg"))


class MtMirror:
    def __init__(self, build, su, time_ns, height):
        self.h = Harness(build)
        self.su = su
        self.h.call({"op": "mt_reset", "chain_prefix": su.chain_prefix, "addr": su.contract, "time": str(time_ns), "height": height,
                     "chain_id": getattr(su, "chain_id", None)})
        self.events = 0
        self.calls = 0

    def close(self):
        self.h.close()

    def _req(self, op, **kw):
        r = self.h.call(dict(op=op, accounts=self.su.accounts(), denoms=self.su.denoms(), **kw))
        if "bad" in r:
            raise RuntimeError("mt world rejected %s: %r" % (op, r))
        return r

    def _compare_tx(self, what, tx, r):
        self.events += 1
        if bool(tx["committed"]) != bool(r["committed"]):
            raise MtMismatch("chain.committed", {"event": what, "lean": tx["committed"], "multi_test": r["committed"],
                                                 "multi_test_calls": [(c["entry"], outcome(c["result"])) for c in r["calls"]]})
        a, b = tx["calls"], r["calls"]
        for i in range(max(len(a), len(b))):
            if i >= len(a) or i >= len(b):
                raise MtMismatch("chain.calls", {"event": what, "what": "number of entry-point calls differs",
                                                 "lean": [_args(c)[:2] for c in a], "multi_test": [_args(c)[:2] for c in b]})
            if _args(a[i]) != _args(b[i]):
                raise MtMismatch("chain.calls", {"event": what, "index": i, "lean": _args(a[i]), "multi_test": _args(b[i])})
            ra, rb = a[i]["result"], b[i]["result"]
            self.calls += 1
            if outcome(ra) != outcome(rb):
                raise MtMismatch("chain.calls", {"event": what, "index": i, "what": "result class", "lean": ra, "multi_test": rb})
            if outcome(ra) == "ok":
                ma = ra["ok"]["msgs"] if "msgs" in ra["ok"] else canon_msgs(ra["ok"])
                if ma != canon_msgs(rb["ok"]):
                    raise MtMismatch("chain.calls", {"event": what, "index": i, "what": "returned messages", "lean": ma, "multi_test": canon_msgs(rb["ok"])})
            elif outcome(ra) == "err" and err_kind(ra) != err_kind(rb) and "Parse" in (err_kind(ra), err_kind(rb)):
                raise MtMismatch("chain.calls", {"event": what, "index": i, "what": "error kind", "lean": ra, "multi_test": rb})

    def _compare_ledger(self, what, lean, mine):
        for key in ("bal", "remote", "supply", "next_seq", "time", "height"):
            x, y = lean.get(key), mine.get(key)
            if key in ("time",):
                x, y = str(x), str(y)
            if x != y:
                if key in ("bal", "remote"):
                    dx = {k: (x.get(k), y.get(k)) for k in set(x) | set(y) if x.get(k) != y.get(k)}
                    raise MtMismatch("chain.ledger." + key, {"event": what, "lean_vs_multi_test": dx})
                raise MtMismatch("chain.ledger." + key, {"event": what, "lean": x, "multi_test": y})
        norm = lambda ps: [(p["seq"], p["channel"], p["sender"], p["receiver"], p["coin"]["denom"], str(p["coin"]["amount"]), p["state"]) for p in ps]
        if norm(lean.get("pkts", [])) != norm(mine.get("pkts", [])):
            raise MtMismatch("chain.ledger.pkts", {"event": what, "lean": lean.get("pkts"), "multi_test": mine.get("pkts")})

    def boot(self, sender, msg, tx):
        r = self._req("mt_boot", sender=sender, msg=msg)
        self._compare_tx("boot", tx, r)
        return r

    def event(self, ev, tx, lean_dump, users):
        r = self._req("mt_event", ev=ev)
        self._compare_tx(ev, tx, r)
        self._compare_ledger(ev, lean_dump["ledger"], r["ledger"])
        mine = self.h.call({"op": "mt_dump", "users": users})["ok"]
        for key, a in lean_dump["contract"].items():
            if key not in mine:
                continue
            b = mine[key]
            if key == "requests":
                for u in a:
                    if a[u] != b.get(u) and not (outcome(a[u]) == outcome(b.get(u, {})) != "ok"):
                        raise MtMismatch("chain.state.requests", {"event": ev, "user": u, "lean": a[u], "multi_test": b.get(u)})
                continue
            if a != b and not (isinstance(a, dict) and isinstance(b, dict) and outcome(a) == outcome(b) and outcome(a) in ("err", "panic")):
                raise MtMismatch("chain.state." + key, {"event": ev, "lean": a, "multi_test": b})
        return r

    def legacy_batches(self):
        import json
        dump = self.h.call({"op": "mt_rawdump"})["ok"]
        pre = (len("batches").to_bytes(2, "big") + b"batches").hex()
        for k, v in dump:
            if k.startswith(pre) and len(k) == len(pre) + 16:
                b = json.loads(bytes.fromhex(v))
                if "unstake_requests_count" in b:
                    del b["unstake_requests_count"]
                    self.h.call({"op": "mt_rawset", "key": k, "value": json.dumps(b, separators=(",", ":")).encode().hex()})
