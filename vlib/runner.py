"""Run batches of histories; collect statistics and divergences."""
import json
import traceback

from .cosim import Divergence, History, Stats, exec_ev
from .gen import Gen
from .procs import Driver, Harness


def run_history(h, d, seed, profile, stats, length, build="osmosis", monitors=None):
    hist = History(h, d, seed, profile, stats, build=build, monitors=monitors)
    stats.histories += 1
    try:
        if not hist.boot():
            return hist, None
        g = Gen(hist, profile.get("weights"))
        # most histories start by un-halting the contract
        if hist.rng.random() < profile.get("resume_first", 0.9):
            hist.event(exec_ev(hist.su.admin, {"resume_contract": {
                "total_native_token": "0", "total_liquid_stake_token": "0", "total_reward_amount": "0"}}))
        n = 0
        while n < length:
            for ev in g.next_events():
                hist.event(ev)
                n += 1
    except Divergence as dv:
        return hist, dv
    return hist, None


def run_many(n, seed, profile, length, build="osmosis", stop_on_first=True, monitors=None):
    h = Harness(build)
    d = Driver()
    stats = Stats()
    divs = []
    try:
        for i in range(n):
            hs = seed * 1_000_003 + i
            hist, dv = run_history(h, d, hs, profile, stats, length, build=build, monitors=monitors)
            if i < 2:
                stats.samples.append({"seed": hs, "events": [e for e in hist.events[1:7]]})
            if dv is not None:
                divs.append({"seed": hs, "channel": dv.channel, "detail": dv.detail, "events": hist.events})
                if stop_on_first:
                    break
    finally:
        h.close()
        d.close()
    return stats, divs
