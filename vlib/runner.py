"""Run batches of histories; collect statistics and divergences."""
import json
import traceback

from .cosim import Divergence, History, Stats, exec_ev
from .gen import Gen
from .procs import Driver, Harness


def run_history(h, d, seed, profile, stats, length, build="osmosis", monitors=None, mode="model"):
    hist = History(h, d, seed, profile, stats, build=build, monitors=monitors, mode=mode)
    stats.histories += 1
    try:
        booted = hist.boot()
        if monitors:
            from . import monitors as M
            for c in hist.boot_tx["calls"]:
                if "panic" in c["result"]:
                    hist.findings.append({"property": "C16", "monitor": "no_panic",
                                          "signature": {"entry": "instantiate", "variant": "instantiate", "site": M.classify_panic(c["result"]["panic"])},
                                          "what": "instantiate panics: %s" % c["result"]["panic"][:120],
                                          "upto": 1, "event": hist.events[0]})
            if booted:
                M.m_boot_config(hist)
        if not booted:
            return hist, None
        g = Gen(hist, profile.get("weights"))
        # most histories start by un-halting the contract
        if hist.rng.random() < profile.get("resume_first", 0.9):
            hist.event(exec_ev(hist.su.admin, {"resume_contract": {
                "total_native_token": "0", "total_liquid_stake_token": "0", "total_reward_amount": "0"}}))
        n = 0
        while n < length:
            for ev in g.next_events():
                hist.event(ev)
                n += 1
    except Divergence as dv:
        return hist, dv
    return hist, None


def run_many(n, seed, profile, length, build="osmosis", stop_on_first=True, monitors=None, mode="model"):
    h = Harness(build)
    d = Driver() if mode == "model" else None
    stats = Stats()
    divs = []
    findings = []
    try:
        for i in range(n):
            hs = seed * 1_000_003 + i
            hist, dv = run_history(h, d, hs, profile, stats, length, build=build, monitors=monitors, mode=mode)
            if i < 2:
                stats.samples.append({"seed": hs, "events": [e for e in hist.events[1:7]]})
            for f in hist.findings:
                f = dict(f)
                f["seed"] = hs
                f["events"] = hist.events[:f.pop("upto", len(hist.events))]
                findings.append(f)
            if dv is not None:
                divs.append({"seed": hs, "channel": dv.channel, "detail": dv.detail, "events": hist.events})
                if stop_on_first:
                    break
    finally:
        h.close()
        if d is not None:
            d.close()
    return stats, divs, findings
