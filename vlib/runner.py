"""Run batches of histories; collect statistics and divergences."""
import json
import traceback

import json

from .cosim import Divergence, History, Stats, exec_ev
from .gen import Gen
from .procs import Driver, Harness


def run_history(h, d, seed, profile, stats, length, build="osmosis", monitors=None, mode="model"):
    hist = History(h, d, seed, profile, stats, build=build, monitors=monitors, mode=mode)
    stats.histories += 1
    try:
        booted = hist.boot()
        if monitors:
            from . import monitors as M
            for c in hist.boot_tx["calls"]:
                if "panic" in c["result"]:
                    hist.findings.append({"property": "C16", "monitor": "no_panic",
                                          "signature": {"entry": "instantiate", "variant": "instantiate", "site": M.classify_panic(c["result"]["panic"])},
                                          "what": "instantiate panics: %s" % c["result"]["panic"][:120],
                                          "upto": 1, "event": hist.events[0]})
            M.m_boot_messages(hist)
            if booted:
                M.m_boot_config(hist)
        if not booted:
            return hist, None
        g = Gen(hist, profile.get("weights"))
        # most histories start by un-halting the contract
        if hist.rng.random() < profile.get("resume_first", 0.9):
            hist.event(exec_ev(hist.su.admin, {"resume_contract": {
                "total_native_token": "0", "total_liquid_stake_token": "0", "total_reward_amount": "0"}}))
        n = 0
        while n < length:
            for ev in g.next_events():
                hist.event(ev)
                n += 1
    except Divergence as dv:
        return hist, dv
    finally:
        if hist.mt is not None:
            hist.mt.close()
    return hist, None


def run_many(n, seed, profile, length, build="osmosis", stop_on_first=True, monitors=None, mode="model"):
    h = Harness(build)
    d = Driver() if mode == "model" else None
    stats = Stats()
    divs = []
    findings = []
    try:
        for i in range(n):
            hs = seed * 1_000_003 + i
            hist, dv = run_history(h, d, hs, profile, stats, length, build=build, monitors=monitors, mode=mode)
            if i < 2:
                stats.samples.append({"seed": hs, "events": [e for e in hist.events[1:7]]})
            for f in hist.findings:
                f = dict(f)
                f["seed"] = hs
                f["events"] = hist.events[:f.pop("upto", len(hist.events))]
                findings.append(f)
            if dv is not None:
                divs.append({"seed": hs, "channel": dv.channel, "detail": dv.detail, "events": hist.events})
                if stop_on_first:
                    break
    finally:
        h.close()
        if d is not None:
            d.close()
    return stats, divs, findings


def cross_build(n, seed, profile, length):
    """the same histories against both real builds (implementation-led): everything observable must
    agree once token-factory messages are decoded (C19: all other behaviour identical)"""
    from .implworld import decode_msg
    from .procs import canon_msgs, outcome
    from . import monitors as M
    stats = {"histories": 0, "events": 0, "calls": 0}
    divs = []
    findings = []
    hs = {b: Harness(b) for b in ("osmosis", "miniwasm")}
    try:
        for i in range(n):
            sd = seed * 1_000_003 + i
            traces = {}
            for b, h in hs.items():
                st = Stats()
                hist = History(h, None, sd, profile, st, build=b, mode="impl", monitors=[M.m_tokenfactory])
                tr = []
                try:
                    if hist.boot():
                        g = Gen(hist, profile.get("weights"))
                        hist.event(exec_ev(hist.su.admin, {"resume_contract": {
                            "total_native_token": "0", "total_liquid_stake_token": "0", "total_reward_amount": "0"}}))
                        k = 0
                        while k < length:
                            for ev in g.next_events():
                                tx = hist.event(ev)
                                rec = []
                                for c in tx["calls"]:
                                    r = c["result"]
                                    o = outcome(r)
                                    msgs = [decode_msg(m) for m in canon_msgs(r["ok"])] if o == "ok" else []
                                    for m in msgs:
                                        m.pop("url", None)      # the module differs by build; judged by m_tokenfactory
                                    rec.append((c["entry"], o, json.dumps(msgs, sort_keys=True)))
                                tr.append({"ev": ev, "committed": tx["committed"], "calls": rec,
                                           "dump": json.dumps(hist.dump, sort_keys=True)})
                                k += 1
                except Exception as e:  # noqa: BLE001
                    tr.append({"error": repr(e)})
                traces[b] = (tr, hist.events)
                for f in hist.findings:
                    f.setdefault("seed", sd)
                    f.setdefault("events", list(hist.events[:f["upto"]]))
                    f["build"] = b
                    findings.append(f)
                stats["calls"] += st.calls
            stats["histories"] += 1
            a, ea = traces["osmosis"]
            bt, _ = traces["miniwasm"]
            stats["events"] += len(a)
            for j, (x, y) in enumerate(zip(a, bt)):
                if x != y:
                    divs.append({"seed": sd, "channel": "build-vs-build", "detail": {"step": j, "osmosis": str(x)[:1500], "miniwasm": str(y)[:1500]},
                                 "events": ea[:j + 3]})
                    break
            else:
                if len(a) != len(bt):
                    divs.append({"seed": sd, "channel": "build-vs-build", "detail": {"lengths": [len(a), len(bt)]}, "events": ea})
            if divs:
                break
    finally:
        for h in hs.values():
            h.close()
    return stats, divs, findings
