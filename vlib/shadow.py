"""Shadow chain: in model-led co-simulation the Lean chain model decides which entry-point calls the chain
makes and keeps the ledgers the world-level theorems are about.  The shadow runs the *independent* Python
chain (`implworld.ImplWorld`) over the same events, feeding it the real contract's recorded answers, and
demands that (a) it makes exactly the same calls in the same order with the same arguments and (b) its
ledgers (bank balances, remote balances, LST supply, packet list, next sequence, clock) equal the Lean
world's after every event.  This ties the Lean chain model — part of the trusted base of every world-level
theorem — to a second rendering of the chain semantics and to the messages the real contract returned."""
from .implworld import ImplWorld


class ShadowMismatch(Exception):
    def __init__(self, channel, detail):
        super().__init__(channel)
        self.channel = channel
        self.detail = detail


class RecordedHarness:
    """stands in for the harness: answers entry-point calls from the log of the model-led replay"""

    def __init__(self):
        self.queue = []

    def load(self, calls_with_results):
        self.queue = list(calls_with_results)

    def call(self, req):
        op = req["op"]
        if op in ("env", "snap", "commit", "rollback"):
            return {"ok": None}
        if not self.queue:
            raise ShadowMismatch("chain.calls", {"what": "the Python chain makes a call the Lean chain model did not make", "call": req})
        call, res = self.queue.pop(0)
        same = call["entry"] == op
        if same and op in ("execute", "instantiate"):
            same = call["sender"] == req["sender"] and call["funds"] == req["funds"] and call["msg"] == req["msg"]
        elif same and op == "reply":
            same = call["id"] == req["id"] and call["result_in"] == req["result"]
        elif same and op == "sudo":
            same = call["msg"] == req["msg"]
        if not same:
            raise ShadowMismatch("chain.calls", {"what": "the two chain models disagree on the next entry-point call",
                                                 "lean": {k: v for k, v in call.items() if k != "result"}, "python": req})
        return res

    def env(self, *a):
        return {"ok": None}


class Shadow:
    def __init__(self, contract, chain_prefix, time_ns, height):
        self.rh = RecordedHarness()
        self.iw = ImplWorld(self.rh, contract, chain_prefix, time_ns, height)

    def boot(self, sender, msg, recorded):
        self.rh.load(recorded)
        tx = self.iw.run_exec(sender, [], msg, None, 0, entry="instantiate")
        self._drained()
        return tx

    def event(self, ev, recorded):
        self.rh.load(recorded)
        tx = self.iw.event(ev)
        self._drained()
        return tx

    def _drained(self):
        if self.rh.queue:
            call, _ = self.rh.queue[0]
            raise ShadowMismatch("chain.calls", {"what": "the Lean chain model made a call the Python chain did not make",
                                                 "lean": {k: v for k, v in call.items() if k != "result"}})

    def compare(self, lean_ledger, accounts, denoms):
        mine = self.iw.ledger_dump(accounts, denoms)
        for key in ("bal", "remote", "supply", "pkts", "next_seq", "time", "height"):
            a, b = lean_ledger.get(key), mine.get(key)
            if key == "pkts":
                a = [dict(p, coin={"denom": p["coin"]["denom"], "amount": str(p["coin"]["amount"])}) for p in a]
                b = [dict(p, coin={"denom": p["coin"]["denom"], "amount": str(p["coin"]["amount"])}) for p in b]
            if a != b:
                raise ShadowMismatch("chain.ledger." + key, {"lean": a if key != "bal" else _diff(a, b)[0],
                                                             "python": b if key != "bal" else _diff(a, b)[1]})


def _diff(a, b):
    da, db = {}, {}
    for acct in set(a) | set(b):
        if a.get(acct) != b.get(acct):
            da[acct], db[acct] = a.get(acct), b.get(acct)
    return da, db
