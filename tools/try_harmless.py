#!/usr/bin/env python3
"""False-alarm test: behaviour-preserving refactorings of /repo (written by an independent sub-agent,
kept under /verif/harmless) are applied one at a time; every quick check must stay quiet (exit 0, no
VIOLATION line).  Usage: try_harmless.py [h1 h2 ...]   (default: all *.diff in /verif/harmless)"""
import glob
import json
import os
import re
import subprocess
import sys
from concurrent.futures import ThreadPoolExecutor

ROOT = os.path.dirname(os.path.dirname(os.path.abspath(__file__)))
sys.path.insert(0, ROOT)
from vlib import props  # noqa: E402


def sh(cmd, cwd=None, env=None):
    p = subprocess.run(cmd, shell=True, cwd=cwd, capture_output=True, text=True, env=env)
    return p.returncode, p.stdout + p.stderr


def main():
    names = sys.argv[1:] or sorted(os.path.basename(f)[:-5] for f in glob.glob(os.path.join(ROOT, "harmless", "*.diff")))
    evdir = os.path.join(ROOT, ".generated", "harmless-evidence")
    env = dict(os.environ, MW_EVIDENCE_DIR=evdir, CARGO_NET_OFFLINE="true")
    results = {}
    for n in names:
        rc, out = sh("git -C /repo status --porcelain")
        if out.strip():
            print("refusing: /repo is not clean")
            sys.exit(2)
        rc, out = sh("git -C /repo apply %s" % os.path.join(ROOT, "harmless", n + ".diff"))
        if rc:
            results[n] = {"apply_error": out}
            continue
        try:
            sh("python3 run.py setup", cwd=ROOT, env=env)          # one build of both harness variants

            def one(c):
                rc, out = sh("python3 run.py check %s --tier quick" % c, cwd=ROOT, env=env)
                return c, rc, re.findall(r"^VIOLATION.*$", out, re.M), out.strip().split("\n")[-1][:160]
            with ThreadPoolExecutor(3) as ex:
                res = list(ex.map(one, sorted(props.P)))
            loud = [(c, v, t) for c, rc, v, t in res if rc != 0 or v]
            results[n] = {"quiet": len(res) - len(loud), "loud": loud}
            print(n, "quiet on %d checks" % (len(res) - len(loud)), "LOUD: %s" % loud if loud else "", flush=True)
        finally:
            sh("git -C /repo checkout -- . && git -C /repo clean -fdq contracts packages")
    sh("python3 run.py setup", cwd=ROOT)
    json.dump(results, open(os.path.join(ROOT, "harmless", "results.json"), "w"), indent=1)


if __name__ == "__main__":
    main()
