#!/usr/bin/env python3
"""Search the real code (implementation-led, all monitors) for failing histories, shrink each
distinct finding and store it under corpus/.  Used on the unchanged tree to document the
defects listed in known_findings.json and DESIGN.md §7."""
import json
import os
import sys

ROOT = os.path.dirname(os.path.dirname(os.path.abspath(__file__)))
sys.path.insert(0, ROOT)
import run  # noqa: E402
from vlib import monitors  # noqa: E402
from vlib.runner import run_many  # noqa: E402


def sig_of(f):
    return (f["property"], f["monitor"], json.dumps(f["signature"], sort_keys=True))


def shrink(events, sig):
    def bad(evs):
        try:
            return any(sig_of(f) == sig for f in run.replay_events(evs))
        except Exception:
            return False
    cur = list(events)
    i = len(cur) - 1
    while i >= 1:
        cand = cur[:i] + cur[i + 1:]
        if bad(cand):
            cur = cand
        i -= 1
    return cur


def main():
    n = int(sys.argv[1]) if len(sys.argv) > 1 else 300
    seed = int(sys.argv[2]) if len(sys.argv) > 2 else 11
    outdir = sys.argv[3] if len(sys.argv) > 3 else os.path.join(ROOT, "corpus")
    stats, divs, findings = run_many(n, seed, {}, 80, mode="impl", monitors=monitors.ALL)
    first = {}
    for f in findings:
        k = sig_of(f)
        if k not in first or len(f["events"]) < len(first[k]["events"]):
            first[k] = f
    os.makedirs(outdir, exist_ok=True)
    for k, f in sorted(first.items()):
        evs = shrink(f["events"], k)
        name = "%s_%s_%s.json" % (k[0], k[1], "_".join(str(v) for v in f["signature"].values()).replace("/", "_").replace(" ", "_")[:60])
        with open(os.path.join(outdir, name), "w") as fh:
            json.dump({"property": k[0], "monitor": k[1], "signature": f["signature"], "what": f["what"],
                       "found_with": {"seed": f["seed"], "n": n}, "events": evs}, fh, indent=1)
        print(len(f["events"]), "->", len(evs), name, "|", f["what"][:100])


if __name__ == "__main__":
    main()
