#!/usr/bin/env python3
"""Evaluate seeded changes (written by independent sub-agents in scratch worktrees) against the checks.

For each id:  confirm in the scratch worktree that the unedited suite passes with the change and that
the demonstration fails with it and passes without it; copy patch / demo / notes into
/verif/seeded/<id>/; apply the patch to /repo, run the checks, undo it (git checkout -- .);
write meta.json.  Usage: try_seed.py <worktree-root> <id> [<id> ...] [--all-checks]"""
import json
import os
import re
import shutil
import subprocess
import sys
import time

ROOT = os.path.dirname(os.path.dirname(os.path.abspath(__file__)))
sys.path.insert(0, ROOT)
from vlib import props  # noqa: E402


def sh(cmd, cwd=None, timeout=3600):
    # evidence of runs against a patched tree must never land in /verif/evidence (that directory holds the records of
    # the unchanged tree only)
    p = subprocess.run(cmd, shell=True, cwd=cwd, capture_output=True, text=True, timeout=timeout,
                       env=dict(os.environ, CARGO_NET_OFFLINE="true", MW_EVIDENCE_DIR=os.path.join(ROOT, ".generated", "seed-evidence")))
    return p.returncode, p.stdout + p.stderr


def confirm(wt):
    """suite green with the change (demo excluded); demo fails with it, passes without it"""
    res = {}
    rc, out = sh("cargo test --workspace --no-fail-fast --offline 2>&1 | grep -E '^test |^test result'", cwd=wt)
    failed = sorted(set(re.findall(r"^test (\S+) \.\.\. FAILED", out, re.M)))
    n_failed = len(re.findall(r"^test \S+ \.\.\. FAILED", out, re.M))      # the same test name may exist in both contracts
    passed = len(re.findall(r"^test \S+ \.\.\. ok", out, re.M))
    res["with_change"] = {"passed": passed, "failed": failed, "n_failed": n_failed}
    rc, out2 = sh("git apply -R seed/patch.diff && cargo test --workspace --no-fail-fast --offline 2>&1 | grep -E '^test |^test result'; git apply seed/patch.diff", cwd=wt)
    failed2 = sorted(set(re.findall(r"^test (\S+) \.\.\. FAILED", out2, re.M)))
    passed2 = len(re.findall(r"^test \S+ \.\.\. ok", out2, re.M))
    res["without_change"] = {"passed": passed2, "failed": failed2}
    # the 107 pinned tests pass with the change; the only failures are demonstration tests, and they pass without it
    res["ok"] = bool(failed) and not failed2 and passed >= 107 and passed2 == passed + n_failed
    return res


def main():
    args = [a for a in sys.argv[1:] if not a.startswith("--")]
    wtroot, ids = args[0], args[1:]
    all_checks = "--all-checks" in sys.argv
    recheck = "--recheck" in sys.argv      # patch already confirmed and stored in seeded/<id>; re-run the checks only
    results = {}
    for sid in ids:
        wt = os.path.join(wtroot, sid)
        pid = sid.split("_")[0]
        dest = os.path.join(ROOT, "seeded", sid)
        os.makedirs(dest, exist_ok=True)
        for f in ("patch.diff", "demo.diff", "notes.md"):
            if os.path.exists(os.path.join(wt, "seed", f)):
                shutil.copy(os.path.join(wt, "seed", f), os.path.join(dest, f))
        t0 = time.time()
        if recheck:
            conf = json.load(open(os.path.join(dest, "meta.json")))["confirmed"]
        else:
            conf = confirm(wt)
        print(sid, "confirmation:", json.dumps(conf)[:400], flush=True)
        meta = {"id": sid, "breaks_property": pid, "confirmed": conf, "ran": [], "caught_by": [], "quiet": []}
        notes = open(os.path.join(dest, "notes.md")).read() if os.path.exists(os.path.join(dest, "notes.md")) else ""
        meta["needs_to_manifest"] = notes[:1500]
        # apply to /repo, run the checks, undo
        rc, out = sh("git -C /repo status --porcelain")
        if out.strip():
            print("refusing: /repo is not clean:", out)
            sys.exit(2)
        rc, out = sh("git -C /repo apply %s" % os.path.join(dest, "patch.diff"))
        if rc != 0:
            meta["apply_error"] = out
        else:
            try:
                checks = sorted(props.P.keys()) if all_checks else [pid] + [c for c in props.P[pid].get("also_run", [])]
                for c in checks:
                    rc, out = sh("python3 run.py check %s --tier quick" % c, cwd=ROOT, timeout=3600)
                    viol = re.findall(r"^VIOLATION.*$", out, re.M)
                    meta["ran"].append({"check": c, "rc": rc, "violations": viol, "tail": out.strip().split("\n")[-1][:200]})
                    (meta["caught_by"] if rc != 0 else meta["quiet"]).append(c)
                    print("  ", sid, c, "rc=%d" % rc, viol[:2], flush=True)
                    for v in viol[:1]:
                        m = re.search(r"replay=(\S+)", v)
                        if m and os.path.exists(m.group(1)):
                            shutil.copy(m.group(1), os.path.join(dest, "replay_%s.json" % c))
            finally:
                sh("git -C /repo checkout -- . && git -C /repo clean -fdq contracts packages")
        meta["wall_s"] = round(time.time() - t0)
        json.dump(meta, open(os.path.join(dest, "meta.json"), "w"), indent=1)
        results[sid] = {"confirmed": conf["ok"], "caught_by": meta["caught_by"]}
        print(sid, "=>", results[sid], flush=True)
    # leave the harness rebuilt against the clean tree
    sh("python3 run.py setup", cwd=ROOT)
    print(json.dumps(results, indent=1))


if __name__ == "__main__":
    main()
