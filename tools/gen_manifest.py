#!/usr/bin/env python3
"""Regenerate MANIFEST.json from vlib/props.py (claimed = registered there)."""
import json, os, sys
ROOT = os.path.dirname(os.path.dirname(os.path.abspath(__file__)))
sys.path.insert(0, ROOT)
from vlib import props
allp = [json.loads(l) for l in open(os.path.join(ROOT, "properties.jsonl"))]
NOT_YET = "check under construction in this session (theorems not yet registered); will be claimed"
checks, na = [], []
for p in allp:
    pid = p["id"]
    if pid in props.P:
        sp = props.P[pid]
        checks.append({
            "property_id": pid,
            "quick_cmd": "python3 run.py check %s --tier quick" % pid,
            "thorough_cmd": "python3 run.py check %s --tier thorough" % pid,
            "evidence_file": "/verif/evidence/%s.json" % pid,
            "replay_cmd_template": "python3 run.py replay {path}",
            "engine": "lean4-proof+cosim",
            "level_claimed": {"category": "proof",
                              "text": sp.get("level_text", "Lean 4 theorems (module %s) about the executable model, for all inputs / states / histories they quantify over; the model is tied to /repo on every run (a) by a translator that regenerates the contracts' message interface, stored layouts and storage keys into Lean tables over which interface theorems are re-checked by kernel evaluation, and (b) by differential co-simulation of the real entry points and pure functions (the chain model additionally against cw-multi-test running the real contract); executable monitors of the same predicates run on the implementation's own answers and supply the failing input when a proof obligation or the correspondence breaks" % sp["module"]),
                              "design_ref": "DESIGN.md §6 " + pid},
            "level_note": sp.get("level_note", "trusted: Lean kernel; correspondence harness/driver/orchestrator; modelled libraries and chain model (DESIGN.md §8); generator coverage bounds what the tie has seen (printed in the evidence)"),
            "technique": sp.get("technique", "Lean 4 theorem proving (machine-checked proofs about a hand-written executable model) + model/implementation correspondence: interface tables regenerated from the source by a translator and re-checked by kernel evaluation, differential co-simulation of the real entry points, reference-chain mirror")})
    else:
        na.append({"property_id": pid, "reason": props.NOT_APPLICABLE.get(pid, NOT_YET) if hasattr(props, "NOT_APPLICABLE") else NOT_YET})
m = {"version": 1, "setup_cmd": "python3 run.py setup",
     "hooks": {"guard": "milkyway_verif", "enable": "none needed: the harness links /repo's crates as path dependencies and calls their public entry points; no source hooks exist",
               "baseline_off_cmd": "cd /repo && cargo test --workspace --no-fail-fast --offline", "source_commits": [], "add_only": True},
     "engines": [{"name": "lean4-proof+cosim", "path": "/verif/lean /verif/harness /verif/vlib /verif/run.py",
                  "serves_properties": sorted(props.P.keys()),
                  "kind_free_text": "Lean 4 model + theorems; Rust harness executing the real contracts; Python orchestrator (generators, comparison, monitors, verdicts)"}],
     "checks": checks, "not_applicable": na,
     "notes": "DESIGN.md explains the approach; known_findings.json lists repaired defects (fixed entries suppress nothing)."}
json.dump(m, open(os.path.join(ROOT, "MANIFEST.json"), "w"), indent=1)
print("claimed:", sorted(props.P.keys()))
