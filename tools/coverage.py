#!/usr/bin/env python3
"""Source coverage of /repo's contract code by the correspondence runs (not a check; a measurement
used to aim the generators).  Builds the harness with -Cinstrument-coverage into
harness/target-cov, runs the quick tier of the given checks (default: all contract properties)
with that binary, merges the profiles and prints, per source file of /repo, the lines that no
co-simulated / implementation-led history, pure differential or migration differential executed.

usage: tools/coverage.py [C01 C02 ...] [--tier quick|thorough] [--show FILE]"""
import glob
import json
import os
import shutil
import subprocess
import sys

ROOT = os.path.dirname(os.path.dirname(os.path.abspath(__file__)))
TOOLS = os.path.expanduser("~/.rustup/toolchains/nightly-x86_64-unknown-linux-gnu/lib/rustlib/x86_64-unknown-linux-gnu/bin")
COV = os.path.join(ROOT, "harness", "target-cov")
PROF = os.path.join(ROOT, ".generated", "cov")


def main():
    args = [a for a in sys.argv[1:] if not a.startswith("--")]
    tier = sys.argv[sys.argv.index("--tier") + 1] if "--tier" in sys.argv else "quick"
    if "--tier" in sys.argv:
        args.remove(tier)
    show = sys.argv[sys.argv.index("--show") + 1] if "--show" in sys.argv else None
    if show:
        args.remove(show)
    checks = args or ["C%02d" % i for i in range(1, 20)]
    os.makedirs(PROF, exist_ok=True)
    # instrumented proc-macros / build scripts write profiles too: keep them out of /repo
    env = dict(os.environ, CARGO_NET_OFFLINE="true", RUSTFLAGS="-Cinstrument-coverage", LLVM_PROFILE_FILE=os.path.join(PROF, "build-%p-%m.profraw"))
    subprocess.run(["cargo", "build", "--offline", "--quiet", "--target-dir", COV], cwd=os.path.join(ROOT, "harness"), env=env, check=True)
    shutil.rmtree(PROF, ignore_errors=True)
    os.makedirs(PROF, exist_ok=True)
    binp = os.path.join(COV, "debug", "mw-harness")
    env2 = dict(os.environ, MW_HARNESS_BIN=binp, LLVM_PROFILE_FILE=os.path.join(PROF, "h-%p-%m.profraw"),
                MW_EVIDENCE_DIR=os.path.join(PROF, "evidence"))
    for c in checks:
        p = subprocess.run([sys.executable, "run.py", "check", c, "--tier", tier], cwd=ROOT, env=env2, capture_output=True, text=True)
        print(c, "rc=%d" % p.returncode, p.stdout.strip().split("\n")[-1][:160], flush=True)
    raws = glob.glob(os.path.join(PROF, "*.profraw"))
    merged = os.path.join(PROF, "merged.profdata")
    subprocess.run([os.path.join(TOOLS, "llvm-profdata"), "merge", "-sparse", "-o", merged] + raws, check=True)
    for f in raws:
        os.remove(f)
    srcs = [f for f in glob.glob("/repo/contracts/*/src/**/*.rs", recursive=True) + glob.glob("/repo/packages/milky_way/src/**/*.rs", recursive=True)
            if "/tests/" not in f and "/bin/" not in f]
    out = subprocess.run([os.path.join(TOOLS, "llvm-cov"), "export", "-format=lcov", "-instr-profile", merged, binp] + srcs,
                         capture_output=True, text=True, check=True).stdout
    cur, res = None, {}
    for line in out.split("\n"):
        if line.startswith("SF:"):
            cur = line[3:]
            res[cur] = {"hit": 0, "miss": []}
        elif line.startswith("DA:") and cur:
            ln, cnt = line[3:].split(",")[:2]
            if int(cnt) > 0:
                res[cur]["hit"] += 1
            else:
                res[cur]["miss"].append(int(ln))
    tot_h = tot_m = 0
    for f in sorted(res):
        h, m = res[f]["hit"], res[f]["miss"]
        tot_h += h
        tot_m += len(m)
        if h + len(m) == 0:
            continue
        print("%-62s %4d/%4d lines  missed: %s" % (f.replace("/repo/", ""), h, h + len(m), compress(m)))
        if show and f.endswith(show):
            src = open(f).read().split("\n")
            for ln in m:
                print("    %5d| %s" % (ln, src[ln - 1]))
    print("TOTAL %d/%d executable lines (%.1f%%)" % (tot_h, tot_h + tot_m, 100.0 * tot_h / max(1, tot_h + tot_m)))
    json.dump(res, open(os.path.join(PROF, "coverage.json"), "w"))


def compress(ls):
    out, i = [], 0
    while i < len(ls):
        j = i
        while j + 1 < len(ls) and ls[j + 1] == ls[j] + 1:
            j += 1
        out.append(str(ls[i]) if i == j else "%d-%d" % (ls[i], ls[j]))
        i = j + 1
    return ",".join(out)


if __name__ == "__main__":
    main()
